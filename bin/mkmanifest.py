#!/usr/bin/env python3
"""Regenerate /verif/MANIFEST.json from the table below (kept in one place so the file is always schema-valid)."""
import json, os, sys

VERIF = os.path.dirname(os.path.dirname(os.path.abspath(__file__)))
TECH = "deterministic simulation with fault injection"

CHECKS = {
 "C02": ("pktsim", "exploration", "7 C02",
         "seeded simulated runs: real encoder -> faulty packet transport (drop/dup/reorder/misroute/truncate/extend/flip/stomp/flag lies, header packets included) -> real packet-level decoder under ASan + divide/bounds checks, with per-call CPU/heap budgets, exit() interception and clear-after-reject ledger check",
         "sampling of corruptions of encoder-produced streams, not every boundary value of every setup field; libogg uninstrumented"),
 "C03": ("vfsim", "exploration", "6 C03",
         "seeded simulated runs: page-level storage/transport damage (drop/dup/swap/move/garbage/stale-CRC flip/sealed flip/granule, serial, sequence and flag lies/tear/truncate/no-EOS) x read-size schedules x op histories against real vorbisfile under ASan; documented return codes, per-op seam-event budget and CPU watchdog, close-count and cleared-handle checks",
         "damage is reached as corruption of encoder-produced streams; event budget is a calibrated polynomial bound, not a proof of termination"),
 "C04": ("encsim", "exploration", "6 C04",
         "seeded simulated producer/consumer interleavings of vorbis_analysis_wrote chunkings and packet drains over all template families, then three consumers (packet API, vorbisfile seekable, vorbisfile streaming over SimFile): sample conservation, granule monotonicity, eos/granule=N, ov_pcm_total=N",
         "N up to 2e5; signals from the seeded generator"),
 "C07": ("vfsim", "exploration", "6 C07",
         "refinement check op by op of real vorbisfile over SimFile (seeded read sizes, page layouts, CHUNKSIZE/READSIZE knobs, chained/cut streams) against a linear reference model: after every successful seek the data read is bit-identical to the reference at the reported position",
         "the library's own packet-level decode of each link is the reference for what the audio is"),
 "C08": ("vfsim", "exploration", "6 C08",
         "same simulator; exact landing of sample seeks, one-sample landing of time seeks, page-bound landing of page seeks (page table from the muxer), rejection of out-of-range targets without moving; targets biased to link/page/packet boundaries",
         "histories and targets are sampled"),
 "C09": ("vfsim", "exploration", "6 C09",
         "same simulator, fault-free configuration: link table (count, info, comments, serials, lengths, totals) and linear read of every link compared with each link decoded alone; all page policies, read-size schedules, knobs, foreign multiplexed streams, cut links",
         "chains of 1-5 links from the seeded corpus"),
 "C10": ("vfsim", "exploration", "6 C10",
         "one physical stream, four consumers (reference, packet API over libogg fed in seeded fragments, vorbisfile seekable, vorbisfile non-seekable incl. initial-bytes buffer) under seeded read-callback size schedules: bit-identical PCM, no OV_HOLE",
         "byte-delivery schedules are sampled"),
 "C11": ("pktsim", "fault_enumeration", "6 C11",
         "for sampled links, the disturbance position is enumerated over packet indices for each fault kind (drop, duplicate, truncate, bit flips, foreign packet, restart, fresh decoder); chunks from the second packet after the disturbance must be bit-identical to the clean decode",
         "links are sampled; multi-fault plans are sampled"),
 "C12": ("vfsim", "fault_enumeration", "6 C12",
         "I/O faults (EIO, premature EOF, 1-byte read, seek -1, tell -1; one-shot / n calls / until heal) attached to a callback ordinal of an op of a seeded scenario; error-or-EOF during faults, no close behind the caller, exact recovery (C07/C08 oracle) after heal when the open had completed",
         "fault position is sampled per run in quick tier, swept per scenario in thorough tier"),
 "C13": ("vfsim", "exploration", "6 C13",
         "allocator ledger (link-time --wrap of malloc family, covers libvorbis and libogg) evaluated at the end of every simulated run after the documented clear calls, clears issued twice in a share of runs, close-callback count from the SimFile log; workload mix of intact, I/O-fault and damaged-stream runs plus encoder template sweep and packet-decoder header prefixes",
         "allocation failure is not injected (unhandled by design)"),
 "C14": ("encsim", "exploration", "6 C14",
         "rate manager driven by real analysis and by a stub analysis stage emitting seeded adversarial packet-size sequences; token-bucket invariant checked online over every window of the packet history against limits read back through OV_ECTL_RATEMANAGE2_GET",
         "one-bit-per-block rounding allowance as stated in DESIGN"),
 "C17": ("vfsim", "exploration", "6 C17",
         "ov_read in all (word, sign, endian, length) combinations inside seek/read histories over SimFile: bytes must equal round/clip/interleave of the reference floats at the pre-call position, whole frames, canary beyond the return value, EINVAL for sub-frame buffers, FP environment preserved",
         "conversion arithmetic itself is a pure function; simulation contributes the history context"),
 "C18": ("mtsim", "exploration", "6 C18",
         "2-6 independent codec tasks on real threads parked and released by a seeded scheduler with preemption at every libvorbis CFG edge, allocator call and I/O callback; each task's observation hash must equal its solo run and a solo run under a different heap/stack poison pattern",
         "preemption granularity is a CFG edge; torn accesses inside a basic block are not reproduced"),
 "C19": ("vfsim", "exploration", "6 C19",
         "twin handles (lapped vs plain) driven through the same seeded history over SimFile: return codes, landing position, bit-identity outside the first half short block, computed window-weighted cross-fade inside it, ov_crosslap on two handles",
         "cross-fade compared with 8-ulp tolerance against the spec window formula; K2/K3 recorded as known findings"),
 "C20": ("vfsim", "exploration", "6 C20",
         "half-rate reference model per link; toggles at arbitrary points of seek/read histories (seekable) or before the first read (streaming); refusal clause decided by a twin that performs a no-op toggle",
         "64-sample-block links are produced by header rewrite (encoder cannot emit them) and are only used for the refusal twin"),
}

NOT_APPLICABLE = [
 ("C01", "pure function of the stream bytes; deciding it needs an independent specification decoder over generated set-ups (differential testing) - no schedule, fault or history to simulate"),
 ("C05", "pure function of (signal, configuration); needs an independent bitstream parser - nothing the environment decides at run time"),
 ("C06", "pure signal-in/signal-out measurement (alignment, finiteness, error bound); no schedule, fault or history"),
 ("C15", "argument validation of encoder set-up calls: no I/O, clock or concurrency, and the only injectable failure (allocation) is unhandled by design"),
 ("C16", "pure data round trip (comment packing) and string matching"),
]


def main(claimed):
    checks = []
    for pid in sorted(claimed):
        eng, level, dref, text, note = CHECKS[pid]
        checks.append({
            "property_id": pid,
            "quick_cmd": f"python3 bin/check {pid} quick",
            "thorough_cmd": f"python3 bin/check {pid} thorough",
            "evidence_file": f"/verif/evidence/{pid}.json",
            "replay_cmd_template": f"python3 bin/check {pid} --replay {{path}}",
            "engine": eng,
            "level_claimed": {"category": level, "text": text, "design_ref": f"DESIGN.md section {dref}"},
            "level_note": note,
            "technique": TECH + (" (per-scenario enumeration of the fault position)" if level == "fault_enumeration" else " (seeded search over schedules, faults and call histories)"),
        })
    na = [{"property_id": p, "reason": r} for p, r in NOT_APPLICABLE]
    for pid in sorted(CHECKS):
        if pid not in claimed:
            na.append({"property_id": pid, "reason": "simulation target (see DESIGN.md), engine not finished yet - not claimed in this revision"})
    engines_all = {
        "vfsim": ("sim/vfsim.cpp", "vorbisfile over SimFile callbacks: op histories, read-size schedules, I/O faults, page damage, twin handles"),
        "pktsim": ("sim/pktsim.cpp", "encoder -> PacketChannel (transport faults) -> packet-level decoder"),
        "encsim": ("sim/encsim.cpp", "producer/consumer schedules of the encoder; rate-manager token bucket with real and stub analysis"),
        "mtsim": ("sim/mtsim.cpp", "seeded scheduler over real parked threads, preemption at CFG edges"),
    }
    engines = []
    for name, (path, kind) in engines_all.items():
        serves = [p for p in sorted(claimed) if CHECKS[p][0] == name]
        if serves:
            engines.append({"name": name, "path": path, "serves_properties": serves, "kind_free_text": kind})
    m = {
        "version": 1,
        "setup_cmd": "python3 bin/check --build-only",
        "hooks": {
            "guard": "XIPH_VORBIS_VERIF",
            "enable": "-DXIPH_VORBIS_VERIF on the simulator's own compile line (bin/vbuild.py); the repository's CMake build never sets it",
            "baseline_off_cmd": "cmake --build /repo/_build && ctest --test-dir /repo/_build -j8 --timeout 900",
            "source_commits": ["451a9c0"],
            "add_only": True,
        },
        "engines": engines,
        "checks": checks,
        "notes": "One simulator binary (simvorbis) is rebuilt from /repo's working tree by every check (cached by content hash under /verif/build). Known findings: /verif/known_findings.jsonl. See DESIGN.md.",
        "not_applicable": na,
    }
    with open(os.path.join(VERIF, "MANIFEST.json"), "w") as f:
        json.dump(m, f, indent=1)
        f.write("\n")


if __name__ == "__main__":
    main(sys.argv[1:] if len(sys.argv) > 1 else sorted(CHECKS))
