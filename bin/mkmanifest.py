#!/usr/bin/env python3
"""Regenerate /verif/MANIFEST.json from the table below (kept in one place so the file is always schema-valid)."""
import json, os, sys

VERIF = os.path.dirname(os.path.dirname(os.path.abspath(__file__)))
TECH = "deterministic simulation with fault injection"

CHECKS = {
 "C02": ("pktsim", "exploration", "7 C02",
         "seeded simulated runs: real encoder output and hand-built legal streams (sim/craft.cpp: floor 0/1, residue 0/1/2, sparse/ordered/lookup-2 codebooks, 1-4 modes, 64-sample blocks) -> faulty packet transport (drop/dup/reorder/misroute/truncate/extend/flip/stomp/flag and granule lies, field-aimed header damage from an independent field map, header sweeps incl. pairs of identification-header fields and callers that carry on after a refused header, late repeated headers) -> real packet-level decoder in seeded call orders (track-only, rejected packet then blockin, mid-stream half-rate, restart) under ASan + divide/bounds checks, with per-call CPU/heap budgets, exit() interception and clear-after-reject ledger check",
         "set-ups and corruptions are sampled (header sweeps enumerate every field of a header slice x ten value kinds); libogg uninstrumented"),
 "C03": ("vfsim", "exploration", "6 C03",
         "seeded simulated runs: page-level storage/transport damage (drop/dup/swap/move/garbage/stale-CRC flip/sealed flip/granule, serial, sequence and flag lies/tear/truncate/no-EOS) x read-size schedules x op histories against real vorbisfile under ASan; documented return codes, per-op seam-event budget and CPU watchdog, close-count and cleared-handle checks; calls made on a handle that is not open (failed open, or cleared in mid-history) held to the documented answers; chains of up to 40 links; handle kept in reused static storage",
         "damage is reached as corruption of encoder-produced streams; event budget is a calibrated polynomial bound, not a proof of termination"),
 "C04": ("encsim", "exploration", "6 C04",
         "seeded simulated producer/consumer interleavings of vorbis_analysis_wrote chunkings and packet drains over all template families, then three consumers (packet API, vorbisfile seekable, vorbisfile streaming over SimFile, also opened with initial bytes already read by the application): sample conservation, granule monotonicity, eos/granule=N, ov_pcm_total=N",
         "N up to 2e5; signals from the seeded generator"),
 "C07": ("vfsim", "exploration", "6 C07",
         "refinement check op by op of real vorbisfile over SimFile (seeded read sizes, page layouts, CHUNKSIZE/READSIZE knobs, chained/cut streams) against a linear reference model: after every successful seek the data read is bit-identical to the reference at the reported position; histories include seeks to the position the handle reports, half-rate toggles (reference: the half-rate linear decode), chains of up to 40 links, and earlier runs of the same process in the same handle storage",
         "the library's own packet-level decode of each link is the reference for what the audio is"),
 "C08": ("vfsim", "exploration", "6 C08",
         "same simulator; exact landing of sample seeks, one-sample landing of time seeks, page-bound landing of page seeks (page table from the muxer), rejection of out-of-range targets without moving; targets biased to link/page/packet boundaries",
         "histories and targets are sampled"),
 "C09": ("vfsim", "exploration", "6 C09",
         "same simulator, fault-free configuration: link table (count, info, comments, serials, lengths, totals) and linear read of every link compared with each link decoded alone; all page policies, read-size schedules, knobs, foreign multiplexed streams (their BOS page before or after ours), cut links; the link table is asked again at every link change of the read and at info ops",
         "chains of 1-5 links from the seeded corpus, and of 8-40 very short links; a stream of the encoder's that the packet-level decoder refuses is itself a violation (it used to be dropped from the corpus)"),
 "C10": ("vfsim", "exploration", "6 C10",
         "one physical stream, four consumers (reference, packet API over libogg fed in seeded fragments, vorbisfile seekable, vorbisfile non-seekable incl. initial-bytes buffer) under seeded read-callback size schedules, with read callbacks that leave errno set although they delivered data: bit-identical PCM, no OV_HOLE",
         "byte-delivery schedules are sampled"),
 "C11": ("pktsim+vfsim", "fault_enumeration", "6 C11",
         "for sampled links, the disturbance position is enumerated over packet indices for each fault kind (drop, duplicate, truncate, bit flips, foreign packet, restart, fresh decoder); chunks from the second packet after the disturbance must be bit-identical to the clean decode; plus, through vorbisfile (30 % of the budget): one page lost / failing its checksum / repeated in an intact stream, read through: bit-identical audio at the reported positions away from the gap",
         "links are sampled; multi-fault plans are sampled"),
 "C12": ("vfsim", "fault_enumeration", "6 C12",
         "I/O faults (EIO, premature EOF, 1-byte read, seek -1, tell -1; one-shot / n calls / until heal) attached to a callback ordinal of an op of a seeded scenario; error-or-EOF during faults, no close behind the caller, a seek that returns 0 under a fault must stand where a seek stands (or at end-of-stream), an open that returns 0 although a read failed with errno set must report the true link table; ov_crosslap with either handle's source failing; exact recovery (C07/C08 oracle) after heal when the open had completed",
         "the fault position is enumerated over every callback of the target op in half (quick) / 80 % (thorough) of the scenarios, sampled in the rest"),
 "C13": ("vfsim", "exploration", "6 C13",
         "allocator ledger (link-time --wrap of malloc family, covers libvorbis and libogg) evaluated at the end of every simulated run after the documented clear calls, clears issued twice in a share of runs, close-callback count from the SimFile log; workload mix of intact, I/O-fault (fault position enumerated over the callbacks of the open in half of them) and damaged-stream runs plus encoder template sweep (either order of the dsp-state and block clears) and packet-decoder header prefixes",
         "allocation failure is not injected (unhandled by design)"),
 "C14": ("encsim", "exploration", "6 C14",
         "rate manager driven by real analysis and by a stub analysis stage emitting seeded adversarial packet-size sequences; token-bucket invariant checked online over every window of the packet history against the limits in force (internal set-up, cross-checked with OV_ECTL_RATEMANAGE2_GET), and the reservoir fill level read after every block (0 <= fill <= reservoir_bits); limits set through the control interface and through vorbis_encode_init, reservoirs down to 0 bits, out-of-range bias, a hard minimum above the hard maximum (has to be refused), hard maxima down to 0.5 kbit/s on short-block signals; violations that need an earlier encoder of the same process are replayed with that run as a prelude",
         "one-bit-per-block rounding allowance as stated in DESIGN"),
 "C17": ("vfsim", "exploration", "6 C17",
         "ov_read in all (word, sign, endian, length) combinations inside seek/read histories over SimFile: bytes must equal round/clip/interleave of the reference floats at the pre-call position, whole frames, canary beyond the return value, EINVAL for sub-frame and negative buffer lengths and non-positive word sizes, FP environment preserved",
         "conversion arithmetic itself is a pure function; simulation contributes the history context (streaming and seekable handles, half-rate toggles, 254/255-channel and hand-built streams with samples far outside +-1, non-idempotent filters with large gains)"),
 "C18": ("mtsim", "exploration", "6 C18",
         "2-6 independent codec tasks on real threads parked and released by a seeded scheduler with preemption at every libvorbis CFG edge, allocator call and I/O callback; each task's observation hash must equal its solo run and a solo run under a different heap/stack poison pattern and stale errno (control-interface queries into poisoned caller storage and vorbisfile query calls included); encoders from 8 to 192 kHz and down to 0 samples, decoders and vorbisfile handles on encoder-made and hand-built streams, files with trailing bytes or cut inside their last pages",
         "preemption granularity is a CFG edge; torn accesses inside a basic block are not reproduced"),
 "C19": ("vfsim", "exploration", "6 C19",
         "twin handles (lapped vs plain) driven through the same seeded history over SimFile: return codes, landing position, bit-identity outside the first half short block, computed window-weighted cross-fade inside it (old audio from the reference model, or from the plain twin for handles without decode state / at half rate / after a failed seek), ov_crosslap on two handles at equal and different half-rate settings and onto a handle with lap+read history; lapped seeks whose lap data is collected across one lost / rejected / repeated page",
         "cross-fade compared with 8-ulp tolerance against the spec window formula; K2/K3 recorded as known findings"),
 "C20": ("vfsim", "exploration", "6 C20",
         "half-rate reference model per link; toggles at arbitrary points of seek/read histories (seekable) or before the first read (streaming); refusal clause decided by a twin that performs a no-op toggle",
         "64-sample-block links come from header rewrite (refusal twin only: positions inexact) and from hand-built streams with genuine 64-sample blocks (refusal checked position-exactly)"),
}

NOT_APPLICABLE = [
 ("C01", "pure function of the stream bytes; deciding it needs an independent specification decoder over generated set-ups (differential testing) - no schedule, fault or history to simulate"),
 ("C05", "pure function of (signal, configuration); needs an independent bitstream parser - nothing the environment decides at run time"),
 ("C06", "pure signal-in/signal-out measurement (alignment, finiteness, error bound); no schedule, fault or history"),
 ("C15", "argument validation of encoder set-up calls: no I/O, clock or concurrency, and the only injectable failure (allocation) is unhandled by design"),
 ("C16", "pure data round trip (comment packing) and string matching"),
]


def main(claimed):
    checks = []
    for pid in sorted(claimed):
        eng, level, dref, text, note = CHECKS[pid]
        checks.append({
            "property_id": pid,
            "quick_cmd": f"python3 bin/check {pid} quick",
            "thorough_cmd": f"python3 bin/check {pid} thorough",
            "evidence_file": f"/verif/evidence/{pid}.json",
            "replay_cmd_template": f"python3 bin/check {pid} --replay {{path}}",
            "engine": eng,
            "level_claimed": {"category": level, "text": text, "design_ref": f"DESIGN.md section {dref}"},
            "level_note": note,
            "technique": TECH + (" (per-scenario enumeration of the fault position)" if level == "fault_enumeration" else " (seeded search over schedules, faults and call histories)"),
        })
    na = [{"property_id": p, "reason": r} for p, r in NOT_APPLICABLE]
    for pid in sorted(CHECKS):
        if pid not in claimed:
            na.append({"property_id": pid, "reason": "simulation target (see DESIGN.md), engine not finished yet - not claimed in this revision"})
    engines_all = {
        "vfsim": ("sim/vfsim.cpp", "vorbisfile over SimFile callbacks (and over stdio through a cookie): op histories, read-size schedules, I/O faults, page damage, single-page gaps, twin handles"),
        "pktsim": ("sim/pktsim.cpp", "encoder output and hand-built streams (sim/craft.cpp) -> PacketChannel (transport faults, field-aimed header damage) -> packet-level decoder in seeded call orders"),
        "encsim": ("sim/encsim.cpp", "producer/consumer schedules of the encoder; rate-manager token bucket with real and stub analysis"),
        "mtsim": ("sim/mtsim.cpp", "seeded scheduler over real parked threads, preemption at CFG edges"),
    }
    engines = []
    for name, (path, kind) in engines_all.items():
        serves = [p for p in sorted(claimed) if name in CHECKS[p][0].split("+") or (p == "C13" and name in ("pktsim", "encsim"))]
        if serves:
            engines.append({"name": name, "path": path, "serves_properties": serves, "kind_free_text": kind})
    m = {
        "version": 1,
        "setup_cmd": "python3 bin/check --build-only",
        "hooks": {
            "guard": "XIPH_VORBIS_VERIF",
            "enable": "-DXIPH_VORBIS_VERIF on the simulator's own compile line (bin/vbuild.py); the repository's CMake build never sets it",
            "baseline_off_cmd": "cmake --build /repo/_build && ctest --test-dir /repo/_build -j8 --timeout 900",
            "source_commits": ["451a9c0"],
            "add_only": True,
        },
        "engines": engines,
        "checks": checks,
        "notes": "One simulator binary (simvorbis) is rebuilt from /repo's working tree by every check (cached by content hash under /verif/build). Known findings: /verif/known_findings.jsonl. See DESIGN.md.",
        "not_applicable": na,
    }
    with open(os.path.join(VERIF, "MANIFEST.json"), "w") as f:
        json.dump(m, f, indent=1)
        f.write("\n")


if __name__ == "__main__":
    main(sys.argv[1:] if len(sys.argv) > 1 else sorted(CHECKS))
