#!/usr/bin/env python3
"""bin/covlines.py <simvorbis> <file substring, e.g. vorbisfile.c> <dump prefix>...   line-level companion of covreport.py: the source lines of
the coverage guards of one library file that no run reached, with the source text. Used to find behaviour the generators never produce.
Not part of any verdict."""
import sys, glob, subprocess, collections
exe, want = sys.argv[1], sys.argv[2]; hit = {}
for pref in sys.argv[3:]:
    for fn in glob.glob(pref + ".*"):
        for line in open(fn):
            pc, e, h = line.split(); pc = int(pc, 16); hit[pc] = hit.get(pc, 0) | int(h)
pcs = sorted(hit)
out = subprocess.run(["llvm-symbolizer-14", "--obj=" + exe, "--functions=linkage", "--inlining=false"], input="\n".join(hex(p) for p in pcs), capture_output=True, text=True).stdout
blocks = [b for b in out.split("\n\n") if b.strip()]
miss = collections.defaultdict(set); src = {}
for pc, b in zip(pcs, blocks):
    ls = b.strip().split("\n"); name = ls[0]; loc = ls[1] if len(ls) > 1 else "?"
    parts = loc.rsplit(":", 2)
    if len(parts) < 3 or want not in parts[0] or hit[pc]: continue
    miss[(parts[0], name)].add(int(parts[1]))
for (f, name), lines in sorted(miss.items(), key=lambda kv: min(kv[1])):
    if f not in src:
        try: src[f] = open(f, errors="replace").read().split("\n")
        except OSError: src[f] = []
    print(f"== {name}")
    for ln in sorted(lines):
        text = src[f][ln - 1].strip() if 0 < ln <= len(src[f]) else ""
        print(f"   {ln}: {text[:150]}")
