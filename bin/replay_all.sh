#!/bin/bash
# replay every file in /verif/replays with the current build; print those that still violate
EXE=$(python3 /verif/bin/vbuild.py 2>/dev/null | tail -1)
ls /verif/replays/*.replay | xargs -P 16 -I{} sh -c "r=\$(timeout 120 $EXE replay {} --cpu-budget 8 2>/dev/null | grep '^REPLAY' | cut -c1-200); echo \"\$r  {}\"" | sort | awk '{print}' 
