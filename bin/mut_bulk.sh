#!/bin/bash
# bin/mut_bulk.sh <seconds> <listfile>   lines: <mutation dir> <prop> [<prop>...]
SECS=$1; LIST=$2
while read -r dir props; do [ -z "$dir" ] && continue; case "$dir" in \#*) continue;; esac; /verif/bin/try_mutation.sh "$dir" "$SECS" $props; done < "$LIST"
