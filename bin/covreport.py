#!/usr/bin/env python3
"""bin/covreport.py <simvorbis> <dump prefix>...   merge the per-worker coverage dumps written under VERIF_COVDUMP=<prefix> and list, per
library source file, the functions no run entered and the edge coverage of those that were entered. A reach measurement for DESIGN.md:
which code behind the properties the simulated runs actually executed. Not part of any verdict."""
import sys, glob, subprocess, collections
exe = sys.argv[1]; hit = {}; entry = {}
for pref in sys.argv[2:]:
    for fn in glob.glob(pref + ".*"):
        for line in open(fn):
            pc, e, h = line.split(); pc = int(pc, 16); hit[pc] = hit.get(pc, 0) | int(h); entry[pc] = int(e)
pcs = sorted(hit)
out = subprocess.run(["llvm-symbolizer-14", "--obj=" + exe, "--functions=linkage", "--inlining=false"], input="\n".join(hex(p) for p in pcs), capture_output=True, text=True).stdout
blocks = [b for b in out.split("\n\n") if b.strip()]
fn_edges = collections.defaultdict(lambda: [0, 0]); fn_file = {}; fn_entered = collections.defaultdict(int)
for pc, b in zip(pcs, blocks):
    ls = b.strip().split("\n"); name = ls[0]; loc = ls[1] if len(ls) > 1 else "?"
    f = loc.rsplit(":", 2)[0]; fn_file[name] = f; fn_edges[name][0] += 1; fn_edges[name][1] += hit[pc]
    if entry[pc] and hit[pc]: fn_entered[name] = 1
byfile = collections.defaultdict(list)
for n, (t, h) in fn_edges.items(): byfile[fn_file[n]].append((n, t, h))
for f in sorted(byfile):
    fs = byfile[f]; T = sum(t for _, t, _ in fs); H = sum(h for _, _, h in fs)
    never = sorted(n for n, t, h in fs if h == 0)
    print(f"{f}: {H}/{T} edges; {len(fs) - len(never)}/{len(fs)} functions entered")
    if never: print("    never entered: " + " ".join(never))
    low = sorted((h / t, n, h, t) for n, t, h in fs if h and t >= 8 and h / t < 0.5)
    for r, n, h, t in low[:12]: print(f"    {n}: {h}/{t}")
