#!/usr/bin/env python3
"""bin/mkseeded.py <results log of bin/mut_bulk.sh>   write /verif/seeded/<id>/meta.json for every seeded change and print the detection table.
The descriptive fields were written by hand from each sub-agent's report (notes.md in the same directory has the full text); the
confirmation and detection fields are parsed from the log of the runs actually performed."""
import json, os, re, sys

VERIF = os.path.dirname(os.path.dirname(os.path.abspath(__file__)))
DESC = {
 "C02-m1": ("lib/floor1.c floor1_unpack: duplicate-post check compares pointers instead of values", "a setup header whose floor1 post list repeats an X value, then an audio packet coding both posts -> division by zero in render_line"),
 "C02-m2": ("lib/block.c vorbis_synthesis_blockin: clamp `if(extra<0)extra=0` removed in the end-of-stream trim", "first packet with granule position >= 2^32, later an e_o_s packet with a granule position near -2^63 so that the 64-bit difference wraps: pcm_current grows past the buffer"),
 "C02-m3": ("lib/sharedbook.c _book_maptype1_quantvals: overflow guard uses vals instead of vals+1", "a maptype-1 codebook with dim >= 63 and few entries in the setup header: headerin never returns"),
 "C03-m1": ("lib/vorbisfile.c _ov_d_seek_lap: second vi=ov_info(vf,-1) after the seek removed", "chained seekable stream, time-based lapped seek from a link with more channels into one with fewer: out-of-bounds access in _ov_splice"),
 "C03-m2": ("lib/vorbisfile.c _fetch_and_process_packet: read errors returned as OV_EREAD; _ov_getlap only stops on OV_EOF", "read callback that keeps failing, handle in INITSET with drained buffers, then any lapped seek / ov_crosslap: unbounded loop on the callback"),
 "C03-m3": ("lib/vorbisfile.c _bisect_forward_serialno: table reallocation moved above the last-page search", "seekable stream with a foreign multiplexed stream whose data continues > 64 KiB after the last Vorbis page: use-after-free of the serial list"),
 "C04-m1": ("lib/vorbisfile.c _initial_pcmoffset: negative-offset clamp tests the wrong variable", "seekable open of a stream whose audio packets all sit on one page: ov_pcm_total reports the untrimmed length"),
 "C04-m2": ("lib/block.c _preextrapolate_helper: flag set only inside the safety block", "total input of 0..32 samples: encoder emits no audio packet at all"),
 "C04-m3": ("lib/vorbisfile.c ov_raw_seek: firstflag moved into the loop body", "seekable open of a stream that fits one page: every packet of the first==last page is thrown away"),
 "C07-m1": ("lib/vorbisfile.c ov_pcm_seek_page (bisection branch): `|| ready_state<STREAMSET` dropped", "a successful seek that dumps the decoder with a stale current_link (raw seek to the end of file), then a page seek into that link: audio starts one packet after the reported position"),
 "C07-m2": ("lib/synthesis.c vorbis_synthesis_trackonly: vb->granulepos assignment dropped", "sample seek into the last page far enough that a packet is skipped track-only, then read to EOF: end trimming uses a stale origin"),
 "C07-m3": ("lib/vorbisfile.c ov_raw_seek: `else` dropped between discarding and counting packets", "byte seek whose first page found is a link's EOS page (not also its first page): reported position short of the link end"),
 "C08-m1": ("lib/vorbisfile.c ov_time_seek: uses the current link's rate instead of the target link's", "chain with different sample rates, decoder in link A, time seek into link B"),
 "C08-m2": ("lib/vorbisfile.c ov_pcm_seek_page (bisection branch): `|| ready_state<STREAMSET` dropped", "decoder dumped with stale current_link (raw seek to physical end, or a failed seek), then a sample seek into the same link: OV_EFAULT / silent packet loss"),
 "C08-m3": ("lib/vorbisfile.c ov_pcm_seek: pre-roll stop bound assumes the next block has the same size", "block switching in the input and a target 128..576 samples past the granule preceding a short->long transition: lands up to ~450 samples late"),
 "C09-m1": ("lib/vorbisfile.c _bisect_forward_serialno: _initial_pcmoffset called with link 0's info", "chain whose link >= 1 has larger blocks than link 0: that link's length is reported short"),
 "C09-m2": ("lib/vorbisfile.c _get_prev_page_serial: fell-off-the-link test looks up the preferred serial", "chain whose links after the first are together shorter than CHUNKSIZE: ov_streams reports 1"),
 "C09-m3": ("lib/vorbisfile.c _fetch_and_process_packet: serial number held in an unsigned 32-bit local", "sequential read into a link >= 1 whose serial number has bit 31 set: the link delivers no samples"),
 "C10-m1": ("lib/vorbisfile.c _get_data: top-up loop never advances the buffer pointer", "a read callback that returns fewer bytes than asked before EOF"),
 "C10-m2": ("lib/vorbisfile.c _fetch_headers: ready_state only raised, never lowered", "seekable open of a chain with three or more links"),
 "C10-m3": ("lib/block.c blockin/pcmout: output pointers computed once in blockin", "a request smaller than what a packet produced (partial vorbis_synthesis_read)"),
 "C11-m1": ("lib/synthesis.c vorbis_synthesis_trackonly: vb->pcm=NULL dropped", "a block that has decoded before, then restart/seek and >= 2 track-only packets: stale audio is overlap-added"),
 "C11-m2": ("lib/mapping0.c mapping0_inverse: per-packet memset moved inside if(floormemo[i])", "coupled pair with one digitally silent channel plus a block-size switch: residue lands on stale scratch data"),
 "C11-m3": ("lib/block.c vorbis_synthesis_blockin: sample_count not reset on a sequence break", "duplicated/replayed packet with page-granularity granule positions: frames trimmed from a good block up to a page later"),
 "C12-m1": ("lib/vorbisfile.c _seek_helper: offset and sync state updated before the seek callback is called", "one-shot seek failure, then the same raw seek retried: the shortcut makes it a no-op, stale position and audio"),
 "C12-m2": ("lib/vorbisfile.c _ov_open2: ov_clear before datasource=NULL in the failure branch", "stage 1 of the open succeeds, I/O fault in stage 2: close callback runs for a failed open"),
 "C12-m3": ("lib/vorbisfile.c _bisect_forward_serialno: vi/vc cleared in the _fetch_headers failure branch", "chained seekable stream and a persisting read failure starting in the preceding backward scan: clears uninitialised stack objects"),
 "C13-m1": ("lib/block.c _vds_shared_init (encode): braces of `if(!ci->fullbooks)` dropped", "a second encoder initialised from the same vorbis_info: every codebook's codelist leaks"),
 "C13-m2": ("lib/info.c _vorbis_unpack_books: residue count published only after the loop", "setup header valid through one residue and damaged inside a later one: unpacked residues leak"),
 "C13-m3": ("lib/vorbisfile.c _ov_open2: single-exit rewrite loses datasource=NULL", "seekable second stage of an open fails: close callback runs although the open failed"),
 "C14-m1": ("lib/bitrate.c: `if(choice<0)break` became `<=0` in the hard-max lowering loop", "hard maximum far below what the mode produces: truncation branch never runs"),
 "C14-m2": ("lib/bitrate.c: drain branch tests min_target_bits instead of max_target_bits", "max-only configuration with over-max packets interleaved with under-max ones: reservoir forgets the excess"),
 "C14-m3": ("lib/bitrate.c: this_bits not re-read after the slew-limited choice", "average tracking + hard max, loud passage after a quiet one, small reservoir"),
 "C17-m1": ("lib/vorbisfile.c ov_read_filter: low clip bound not offset in the 8-bit unsigned path", "word=1, sgned=0 and a decoded sample below -1.0"),
 "C17-m2": ("lib/vorbisfile.c ov_read_filter: channel count read before the packet fetch loop", "the one sequential ov_read that crosses into a link with a different channel count"),
 "C17-m3": ("lib/vorbisfile.c ov_read_filter: too-small buffer tested on length instead of frames", "0 < length < one frame: returns 0 (EOF) instead of OV_EINVAL"),
 "C18-m1": ("lib/mapping0.c mapping0_inverse: per-packet memset moved inside if(floormemo[i])", "coupled stream with one silent channel: output depends on recycled heap contents"),
 "C18-m2": ("lib/psy.c setup_tone_curves: 30 kB work table made static", "two encoders whose vorbis_analysis_init calls overlap in different threads"),
 "C18-m3": ("lib/vorbisfile.c _ov_getlap: memset length in samples instead of bytes", "raw seek to just before the last page, then a lapped call: lap buffer partly uninitialised stack"),
 "C19-m1": ("lib/block.c vorbis_synthesis_lapout: overlapping copy made ascending", "lapped seek whose target is primed by blocks of different sizes (lW^W==1)"),
 "C19-m2": ("lib/vorbisfile.c _ov_getlap: memcpy destination lost +lapcount in the end-of-stream fallback", "old position within 1..127 samples of the end of a stream or link"),
 "C19-m3": ("lib/vorbisfile.c ov_crosslap: n2 computed with hs1 instead of hs2", "ov_crosslap with vf1 at full rate and vf2 at half rate"),
 "C20-m1": ("lib/vorbisfile.c ov_halfrate: roll-back loop never reaches link 0", "chain where a link other than the first has 64-sample blocks, ov_halfrate(vf,1): refused but link 0 stays half-rate"),
 "C20-m2": ("lib/vorbisfile.c _fetch_and_process_packet: half-rate flag read after vorbis_info_clear", "non-seekable chain of >= 2 links with half rate switched on before reading"),
 "C20-m3": ("lib/block.c vorbis_synthesis_blockin: beginning trim not scaled to half rate", "half-rate decoding of a start-trimmed link (first page granule smaller than its packets decode to)"),
 "C02-r2m1": ("lib/info.c vorbis_synthesis_headerin: the two rejections of an identification packet merged into one test that lets a second one through", "a further b_o_s identification header (other channel count / block sizes) after the three headers were accepted, then decode: the set-up no longer fits the unpacked state"),
 "C02-r2m2": ("lib/info.c _vorbis_unpack_comment: comment table from malloc instead of calloc", "a comment header that fails part-way through its list: the error path frees uninitialised pointers"),
 "C02-r2m3": ("lib/codebook.c vorbis_book_decodev_add: inner copy loop no longer stops at the end of the partition", "a hand-built (legal) set-up: residue 1 whose partition size is not a multiple of a stage book's dimension, dimension larger than what is left of the block"),
 "C03-r2m1": ("lib/vorbisfile.c _fetch_headers: serial list freed but the caller's pointer not reset on the duplicate-serial bail-out", "an initial header group that repeats a serial number: the caller frees the list again"),
 "C03-r2m2": ("lib/vorbisfile.c _ov_getlap: lapout copy clamped to the whole lap size instead of what is still missing", "lapped call with the old position within a block of the end of a link: writes past the lap buffer"),
 "C03-r2m3": ("lib/vorbisfile.c ov_bitrate_instant: per-link table indexed with current_link on a streaming handle", "streaming (non-seekable) chain read past the first link boundary, then ov_bitrate_instant"),
 "C04-r2m1": ("lib/block.c vorbis_analysis_blockout: end-of-input test one sample early", "input lengths that end exactly on a block centre: the last sample/packet is lost"),
 "C04-r2m2": ("lib/vorbisfile.c _bisect_forward_serialno: wrong granule variable handed to the recursion", "seekable chain of three or more links: a middle link's length is derived from the wrong page"),
 "C04-r2m3": ("lib/vorbisfile.c ov_read_float: samples consumed before the request size is applied", "a request for fewer samples than a packet produced: the remainder is dropped"),
 "C07-r2m1": ("lib/vorbisfile.c ov_pcm_seek: skipped packets sized with link 0's set-up", "chain whose link >= 1 has other block sizes than link 0, sample seek into it"),
 "C07-r2m2": ("lib/vorbisfile.c ov_raw_seek: granule position clamped before the scanned packets are subtracted", "byte seek landing where the first positioned page is within a few blocks of the link start"),
 "C07-r2m3": ("lib/synthesis.c vorbis_packet_blocksize: mode field one bit too narrow when the mode count is not a power of two", "a stream declaring three modes that uses mode 2 (legal, never written by the encoder), any seek"),
 "C08-r2m1": ("lib/synthesis.c vorbis_synthesis_trackonly: packet number no longer carried", "sample seek that skips packets track-only and then reads to the end: end-of-stream trimming sees a sequence break"),
 "C08-r2m2": ("lib/vorbisfile.c ov_pcm_seek_page: upper range check removed", "page seek to a position past the total"),
 "C08-r2m3": ("lib/vorbisfile.c _seek_helper: offset and sync state updated before the seek callback succeeded", "one failing seek callback, then a seek to the same place"),
 "C09-r2m1": ("lib/vorbisfile.c _initial_pcmoffset: first audio pages with granule position 0 skipped", "a link whose first audio page(s) end at granule 0 (very short links, one packet per page)"),
 "C09-r2m2": ("lib/vorbisfile.c ov_raw_seek: first-page test against the link start instead of the data start (same-link branch)", "byte seek into the first audio page of a link"),
 "C09-r2m3": ("lib/vorbisfile.c _fetch_headers: ready_state not reset on entry", "a stream whose header fetch is re-entered (chained / streaming link change)"),
 "C10-r2m1": ("lib/vorbisfile.c ov_raw_seek: first-page test against the link start (re-identification branch)", "byte seek into another link's first audio page"),
 "C10-r2m2": ("lib/vorbisfile.c _fetch_and_process_packet: half-rate setting sampled after the info struct is cleared", "streaming chain with half rate on, crossing a link boundary"),
 "C10-r2m3": ("lib/vorbisfile.c ov_read_filter: filter applied before the sample count is clamped to the buffer", "ov_read_filter with a filter that is not idempotent and a buffer smaller than the decoded block"),
 "C11-r2m1": ("lib/block.c vorbis_synthesis_lapout: un-wrap loop runs over the current block's half size", "lapout right after a long->short transition with the ring wrapped"),
 "C11-r2m2": ("lib/vorbisfile.c ov_pcm_seek_page: first-page special case no longer restarts the synthesis state", "decode something, then seek to a target on the first audio page of the current link"),
 "C11-r2m3": ("lib/res0.c: residue decode range computed once per decoder and cached", "a stream in which one residue serves both block sizes (legal, never written by the encoder)"),
 "C12-r2m1": ("lib/vorbisfile.c ov_pcm_seek_page: beginning-of-link case forgets that the decoder may have been dumped", "a failed seek (decoder dumped), then a seek to the start of a link"),
 "C12-r2m2": ("lib/block.c vorbis_block_clear: memset(sizeof pointer)", "any path that clears a block twice or re-initialises it (failed seek, ov_clear after error)"),
 "C12-r2m3": ("lib/vorbisfile.c _ov_d_seek_lap: early return after the embedded seek lost", "time-based lapped seek during which one seek/read callback fails"),
 "C13-r2m1": ("lib/sharedbook.c _make_words: scratch list not freed on the underpopulated-tree rejection", "set-up header with an underpopulated codebook"),
 "C13-r2m2": ("lib/vorbisfile.c _fetch_headers: freed serial list pointer still handed back", "initial header group that repeats a serial number"),
 "C13-r2m3": ("lib/info.c vorbis_analysis_headerout: second call frees header1 instead of header2", "vorbis_analysis_headerout called twice on one encoder"),
 "C14-r2m1": ("lib/bitrate.c: hard-max allowance keyed on the next block's size", "hard maximum with block switching"),
 "C14-r2m2": ("lib/vorbisenc.c vorbis_encode_setup_managed: default reservoir from the caller's nominal rate instead of the resolved one", "max/min given without a nominal rate: reservoir 0, limits silently off"),
 "C14-r2m3": ("lib/bitrate.c: min and max enforcement flattened into if/else-if", "both limits, reservoir smaller than the step between adjacent candidate sizes"),
 "C17-r2m1": ("lib/vorbisfile.c ov_read_filter: channel bound off by one (>=255)", "a 255-channel stream read through ov_read"),
 "C17-r2m2": ("lib/vorbisfile.c ov_info(vf,-1): current_link used on streaming handles", "streaming chain, ov_read after the first link boundary"),
 "C17-r2m3": ("lib/vorbisfile.c ov_read_filter: half-rate shift dropped when advancing the position", "ov_read with half rate on"),
 "C18-r2m1": ("lib/psy.c _vp_psy_init: ATH curve tail left unwritten", "encoder at a sample rate above ~58.7 kHz: output depends on recycled heap contents"),
 "C18-r2m2": ("lib/vorbisfile.c _get_data: errno no longer cleared before the read callback", "stale errno on the thread plus a data source that really runs into its end during open/seek (trailing bytes after the last page)"),
 "C18-r2m3": ("lib/lpc.c vorbis_lpc_from_data: early-out leaves one coefficient uninitialised (stack)", "encoder end-of-stream extrapolation on a perfectly predictable signal"),
 "C19-r2m1": ("lib/vorbisfile.c _ov_splice: window of the longer half short block", "lap between links with different short block sizes"),
 "C19-r2m2": ("lib/vorbisfile.c _ov_d_seek_lap: time argument narrowed to float", "lapped time seek whose target time is not representable in a float"),
 "C19-r2m3": ("lib/vorbisfile.c _ov_64_seek_lap: old link's settings looked up before the decoder is re-established", "handle dumped by a failed seek with the cursor in a link > 0 that differs from link 0, then a sample/byte lapped seek"),
 "C20-r2m1": ("lib/synthesis.c vorbis_synthesis_halfrate: flag stored unnormalised", "half rate switched on with a non-zero flag other than 1"),
 "C20-r2m2": ("lib/vorbisfile.c ov_pcm_seek: remaining distance measured from the rounded target", "half-rate seek to an odd target"),
 "C20-r2m3": ("lib/vorbisfile.c ov_halfrate: position not restored when it is exactly 0", "toggle at position 0 after decoding has started"),
 "C02-r3m1": ("lib/synthesis.c vorbis_synthesis_trackonly: vb->pcm=NULL after the ripcord removed again (the four early returns skip the later one)", "a block that has just decoded a packet for which its storage grew, then trackonly with a packet it rejects, then blockin anyway: reads freed chunks"),
 "C02-r3m2": ("lib/sharedbook.c _book_unquantize case 2: used-entry index advances for unused entries too", "set-up header with a codebook of lookup type 2 that is also sparse (never written by the encoder): vorbis_synthesis_init reads past the sort index"),
 "C02-r3m3": ("lib/synthesis.c vorbis_synthesis_halfrate: refusal guard <64 instead of <=64", "stream with 64-sample short blocks and half rate switched on: window table index -1"),
 "C03-r3m1": ("lib/vorbisfile.c ov_pcm_seek discard loop: half-rate exit test target<0 instead of <1", "chain whose earlier links total an odd length, half rate, sample seek into the later link to an even position: never returns"),
 "C03-r3m2": ("lib/vorbisfile.c _open_seekable2/_ov_open2: the last seek of the open returned directly, bypassing the failure clean-up", "seek callback fails on exactly the last seek of an otherwise successful open: error returned with the handle populated and the source attached"),
 "C03-r3m3": ("lib/vorbisfile.c ov_crosslap: n1 computed with hs2", "ov_crosslap from a half-rate handle onto a full-rate one: window table read past its end"),
 "C04-r3m1": ("lib/analysis.c vorbis_analysis direct-packet branch: granule position taken from the dsp state instead of the block", "encode through vorbis_analysis(&vb,&op) (unmanaged mode), stream of two or more audio pages: every packet stamped one block ahead"),
 "C04-r3m2": ("lib/vorbisfile.c _get_prev_page_serial: granule position assigned once from the last page scanned", "Vorbis multiplexed with another logical stream whose last page comes after the Vorbis end-of-stream page: ov_pcm_total wrong"),
 "C04-r3m3": ("lib/vorbisfile.c _fetch_and_process_packet: serial/link bookkeeping moved in front of _fetch_headers at a streaming link boundary", "streaming chain of two or more links: the second link is never delivered"),
 "C07-r3m1": ("lib/vorbisfile.c _initial_pcmoffset: lastblock starts at 0", "a link whose granule positions start above zero: positions 64 off, seeks deliver sample T-64 as T"),
 "C07-r3m2": ("lib/vorbisfile.c _bisect_forward_serialno: dataoffset taken after _initial_pcmoffset consumed a page", "chain, seek to a target on the first audio page of a link other than the first"),
 "C07-r3m3": ("lib/vorbisfile.c ov_pcm_seek_page: beginning-of-link branch no longer restarts the synthesis state", "decoder initialised in link n, then a seek into the first page of the same link"),
 "C08-r3m1": ("lib/vorbisfile.c _initial_pcmoffset: lastblock starts at 0 and the guard is dropped", "a link whose first audio page does not start at granule 0"),
 "C08-r3m2": ("lib/vorbisfile.c ov_pcm_seek discard loop: target not scaled by the half-rate shift", "half rate, then a sample or time seek to a position off the block grid"),
 "C08-r3m3": ("lib/vorbisfile.c ov_pcm_seek_page fallback rewind: lost negation in the page acceptance test", "a packet spanning three or more pages whose last page holds only its tail, target just behind it"),
 "C09-r3m1": ("lib/vorbisfile.c ov_read_filter: channel count and frame size read before the fetch loop", "the one ov_read that crosses into a link with another channel count"),
 "C09-r3m2": ("lib/synthesis.c vorbis_packet_blocksize: mode field width ov_ilog(modes)-1", "a link with a non-power-of-two mode count: its length and the total are wrong"),
 "C09-r3m3": ("lib/vorbisfile.c _bisect_forward_serialno: priming value -1 instead of serialno+1", "chain with serial number 0xffffffff on a link that is not the last: its length becomes 0"),
 "C10-r3m1": ("lib/vorbisfile.c _fetch_and_process_packet: page serial held in an unsigned 32-bit local", "seekable chain read linearly into a link whose serial has bit 31 set"),
 "C10-r3m2": ("lib/synthesis.c vorbis_packet_blocksize: guard modes<=1", "a set-up with exactly one mode (8/11 kHz encodes), seekable open: the first audio page is dropped"),
 "C10-r3m3": ("lib/vorbisfile.c _add_serialno: count incremented before the realloc that sizes the list with it", "two or more beginning-of-stream pages (multiplexed streams): heap overflow by one element"),
 "C11-r3m1": ("lib/vorbisfile.c _fetch_and_process_packet: position re-anchored from granule positions only while unknown", "a page lost/rejected/repeated (OV_HOLE), then reading on for more than a page: positions stay off for the rest of the link"),
 "C11-r3m2": ("lib/vorbisfile.c ov_pcm_seek skip loop: link's initial granule offset not subtracted", "stream whose positions do not start at 0, sample seek that skips a page-closing packet"),
 "C11-r3m3": ("lib/vorbisfile.c ov_raw_seek: same-link firstflag test flipped", "byte seek whose scan starts on the final page of the current link"),
 "C12-r3m1": ("lib/vorbisfile.c ov_raw_seek: guard tests callbacks.seek_func instead of seekable", "seek callback fails once at the very first callback of the open (handle opens as streaming), then ov_raw_seek(vf,0)"),
 "C12-r3m2": ("lib/vorbisfile.c _fetch_and_process_packet: failed reads returned as OV_EREAD (the _ov_getlap loop only stops on OV_EOF)", "lapped seek or crosslap with a persisting read error and nothing left to lap: never returns"),
 "C12-r3m3": ("lib/vorbisfile.c _get_prev_page: re-read failure check narrowed to OV_EREAD", "continued-packet tail page plus a persisting premature end of data starting inside the backward scan: zeroed page dereferenced"),
 "C13-r3m1": ("lib/vorbisfile.c _fetch_and_process_packet: _decode_clear moved below the streaming header clear", "streaming chain read across a link boundary: previous link's look-ups and PCM buffers orphaned"),
 "C13-r3m2": ("lib/floor0.c floor0_free_look: loop stops at the first empty map slot", "floor-0 set-up decoded with a long block and no short block before the clear"),
 "C13-r3m3": ("lib/info.c vorbis_info_clear: residue loop bounded by the floor count", "set-up header with more residues than floors"),
 "C14-r3m1": ("lib/vorbisenc.c OV_ECTL_RATEMANAGE2_SET: the two bias range checks joined with &&", "reservoir bias outside [0,1] accepted: fill level starts outside the reservoir"),
 "C14-r3m2": ("lib/bitrate.c vorbis_bitrate_init: per-block budgets divided by a truncated blocks-per-second", "sample rates that are not a multiple of the short half block (8/16 kHz), long runs or small reservoirs"),
 "C14-r3m3": ("lib/bitrate.c vorbis_bitrate_addblock: zero padding sized from the short-block minimum", "hard minimum, digital silence (long blocks), small head-room"),
 "C17-r3m1": ("lib/vorbisfile.c ov_read_filter: filter applied before the frame count is clamped", "ov_read_filter with a non-idempotent filter and a buffer shorter than what is pending"),
 "C17-r3m2": ("lib/vorbisfile.c ov_read_filter: range guard missing in the big-endian 16-bit loop", "word=2, bigendianp=1 and a sample of +65536.0 or more"),
 "C17-r3m3": ("lib/vorbisfile.c ov_read_filter: clamped read returns length instead of the bytes written", "buffer length not a multiple of the frame size with more data pending"),
 "C18-r3m1": ("lib/codebook.c vorbis_book_decodev_set: whole vectors only", "floor-0 stream whose LSP order is not a multiple of the value book's dimension: trailing coefficients keep block memory contents"),
 "C18-r3m2": ("lib/vorbisfile.c _bisect_forward_serialno: last link's length only stored when the final granule is positive", "seekable file cut off inside a multi-page packet (last page without granule position): total is heap garbage"),
 "C18-r3m3": ("lib/block.c _vds_shared_init: PCM buffers from malloc instead of calloc", "encode of at most 32 samples: lead-in never overwritten"),
 "C19-r3m1": ("lib/vorbisfile.c _ov_splice: channels that exist only at the new position faded with w instead of w*w", "lapped seek / crosslap into a link with more channels"),
 "C19-r3m2": ("lib/vorbisfile.c ov_time_seek_page_lap: passes ov_time_seek", "ov_time_seek_page_lap to a target off a page start: lands elsewhere than the plain call"),
 "C19-r3m3": ("lib/block.c vorbis_window: full-rate window returned at half rate", "half rate, then any lapped seek or crosslap"),
 "C20-r3m1": ("lib/synthesis.c vorbis_synthesis_halfrate: refusal threshold applied to the halved block size", "stream with 128-sample short blocks: half rate refused"),
 "C20-r3m2": ("lib/block.c vorbis_synthesis_blockin: end trim of a first-and-last page scaled twice at half rate", "half rate on a very short link with all audio on one page"),
 "C20-r3m3": ("lib/vorbisfile.c _ov_d_seek_lap: lap length of the landing link not halved", "half rate, chain with different short block sizes, time-based lapped seek from the big-block into the small-block link"),
 "C02-r4m1": ("lib/res0.c _01inverse: partition-word range test > instead of >=", "phrasebook with more entries than partitions^dim and a packet coding exactly entry `partvals`: reads one past the decode map"),
 "C02-r4m2": ("lib/block.c _vds_shared_init (decode): NULL static book test removed", "a refused vorbis_synthesis_init (underpopulated codebook) followed by another init on the same vorbis_info"),
 "C02-r4m3": ("lib/floor1.c floor1_inverse2: line rendered to the floor's own range instead of half the block", "floor 1 whose range exceeds half the block size (legal, never written by the encoder)"),
 "C03-r4m1": ("lib/synthesis.c vorbis_synthesis_halfrate: refusal guard <64", "64-sample short blocks, ov_halfrate(1), then any decode"),
 "C03-r4m2": ("lib/floor1.c floor1_inverse2: n taken from look->n", "floor-1 range larger than half the block: heap overflow on a plain read"),
 "C03-r4m3": ("lib/vorbisfile.c _make_decode_ready: ready_state raised before the fallible vorbis_synthesis_init", "link whose set-up unpacks but whose decoder cannot be built; a second call on the handle after OV_EBADLINK"),
 "C04-r4m1": ("lib/block.c vorbis_synthesis_blockin: pending-output refusal moved below the state update", "packet-level decoder that submits first and drains on refusal: the retried block is out of sequence, end trim lost"),
 "C04-r4m2": ("lib/vorbisfile.c _bisect_forward_serialno: priming value -1", "chain with serial 0xffffffff on a non-final link"),
 "C04-r4m3": ("lib/vorbisfile.c ov_read_filter: channels>=255 refused", "255-channel stream through ov_read"),
 "C07-r4m1": ("lib/block.c vorbis_synthesis_blockin: sample_count only advanced for decoded blocks", "one-page link, sample seek that skips packets track-only, read to the end: end trim lost"),
 "C07-r4m2": ("lib/vorbisfile.c _get_prev_page_serial: granule position assigned before the preferred-serial early return", "another logical stream whose last page follows the Vorbis end-of-stream page"),
 "C07-r4m3": ("lib/vorbisfile.c ov_raw_seek: scratch stream not reset after init", "byte seek landing on the second-to-last page of the link the handle is already in"),
 "C08-r4m1": ("lib/synthesis.c vorbis_packet_blocksize: mode field width ov_ilog(modes)-1", "stream with a non-power-of-two mode count"),
 "C08-r4m2": ("lib/block.c vorbis_synthesis_blockin: sample_count only advanced for decoded blocks", "one-page link, seek deep enough to skip a packet track-only, read on"),
 "C08-r4m3": ("lib/vorbisfile.c _get_prev_page_serial: granule position hoisted out of the preferred-serial branch", "multiplexed link whose other stream ends after the Vorbis stream: seeks beyond the foreign granule refused"),
 "C09-r4m1": ("lib/vorbisfile.c _initial_pcmoffset: half a block counted per packet", "link whose positions start above zero and whose first page begins short and ends long"),
 "C09-r4m2": ("lib/vorbisfile.c _fetch_headers/_fetch_and_process_packet: current_serialno assignment moved into _fetch_headers", "any seekable chain of two or more links read from the start"),
 "C09-r4m3": ("lib/vorbisfile.c _ov_open1: vf->offset set to ibytes after copying initial data", "ov_open_callbacks with initial bytes on a seekable source"),
 "C10-r4m1": ("lib/vorbisfile.c ov_halfrate: unwind loop never reaches link 0", "seekable chain with a later 64-sample link, half rate requested and refused, read on"),
 "C10-r4m2": ("lib/vorbisfile.c ov_read_filter: channel count read before the fetch loop", "ov_read across a link boundary with another channel count"),
 "C10-r4m3": ("lib/vorbisfile.c ov_pcm_seek_page: out-of-range refusal goes through seek_error (decoder dumped)", "mid-stream, a seek beyond the total, then further reads: samples disappear"),
 "C11-r4m1": ("lib/floor0.c floor0_inverse2: lazy map init only on the used-floor branch", "floor-0 coupled stream, unused floor in one channel, fresh decoder at that packet: residue goes out as audio"),
 "C11-r4m2": ("lib/synthesis.c vorbis_packet_blocksize: mode field width", "three-mode stream plus a seek that skips a mode-2 packet"),
 "C11-r4m3": ("lib/block.c vorbis_synthesis_blockin: pending-output refusal no longer a no-op", "submit-first decode loop at a long/short switch or on the last page"),
 "C12-r4m1": ("lib/vorbisfile.c ov_pcm_seek_page seek_error: extra ogg_sync_reset", "read failure inside a sample seek with part of a page buffered, then ov_raw_seek to the current raw position"),
 "C12-r4m2": ("lib/vorbisfile.c _get_next_page: _get_data's -1 returned as is (equals OV_FALSE)", "read error while ov_pcm_seek skips packets in front of the target: seek returns 0 at the target with wrong audio"),
 "C12-r4m3": ("lib/vorbisfile.c _ov_getlap: fallback copy clamped to the whole lap size", "partial block pending, next packet not buffered, read callback failing during a lapped seek: stack buffer overflow"),
 "C13-r4m1": ("lib/vorbisfile.c _bisect_forward_serialno: header clear lost on the recursive-failure branch", "seekable chain of three or more links, failure while mapping link 3 or later"),
 "C13-r4m2": ("lib/vorbisenc.c residue set-up: free-the-earlier-copy test and count maintenance split over two functions", "6-channel 44.1/48 kHz templates: one residue description orphaned"),
 "C13-r4m3": ("lib/info.c vorbis_comment_clear: early return after freeing the vendor string", "comment header refused after the vendor string, then a second clear: double free"),
 "C14-r4m1": ("lib/bitrate.c: final packet size booked in bits, emitted in whole bytes", "hard maximum pressed against over a long run or with a small reservoir"),
 "C14-r4m2": ("lib/bitrate.c: truncation branch does not record its choice", "quiet passage on a high candidate, then a block whose smallest candidate does not fit, small reservoir"),
 "C14-r4m3": ("lib/bitrate.c: the closing packet is not zero padded", "hard minimum, quiet tail, small reservoir"),
 "C18-r4m1": ("lib/mapping0.c mapping0_forward: floor-fit pointer table cleared for channel 0 only", "managed mode, two or more channels, a block where a later channel is digitally silent"),
 "C18-r4m2": ("lib/res0.c _01inverse: partword table made static", "two decoders on residue-0/1 streams running at the same time"),
 "C18-r4m3": ("lib/vorbisfile.c _ov_splice: the longer of n1/n2 chosen", "crosslap / lapped seek between links with different short block sizes"),
 "C19-r4m1": ("lib/vorbisfile.c ov_pcm_seek: early return when the target equals the current position", "lapped sample/time seek whose target is exactly ov_pcm_tell()"),
 "C19-r4m2": ("lib/vorbisfile.c _ov_getlap: gives up at OV_HOLE", "lost page less than half a short block after the old position, then a lapped seek"),
 "C19-r4m3": ("lib/vorbisfile.c _ov_d_seek_lap: old position primed with _ov_initprime", "time-based lapped seek from a handle read exactly to the end of a link"),
}

def main():
    log = open(sys.argv[1]).read() if len(sys.argv) > 1 and os.path.exists(sys.argv[1]) else ""
    blocks = re.split(r"^== ", log, flags=re.M)[1:]
    res = {}
    for b in blocks:
        head = b.split("\n", 1)[0]
        m = re.match(r"(?:seeded/)?(C\d+-(?:r[234])?m\d):\s*(.*)", head) or re.match(r"mut_(C\d+)\.out/(m\d):\s*(.*)", head) or re.match(r"mu2_(C\d+)\.out/(m\d):\s*(.*)", head)
        if not m: continue
        mid = m.group(1) if "-" in m.group(1) else (f"{m.group(1)}-{m.group(2)}" if head.startswith("mut_") else f"{m.group(1)}-r2{m.group(2)}")
        r = res.setdefault(mid, {"checks": {}})
        if "PATCH-DOES-NOT-APPLY" in head: r["applies"] = False; continue
        r["applies"] = True
        mm = re.search(r"ctest\(mutated\): (.*)", b); r["ctest_with_change"] = mm.group(1).strip() if mm else None
        mm = re.search(r"demo\(mutated\): exit=(\d+)", b); r["demo_with_change_exit"] = int(mm.group(1)) if mm else None
        mm = re.search(r"demo\(clean\): exit=(\d+)", b); r["demo_without_change_exit"] = int(mm.group(1)) if mm else None
        for cm in re.finditer(r"check (C\d+): rc=(\d+) ?(.*)", b):
            classes = re.findall(r"class=(\S+)", b[cm.end():].split("   check ")[0])
            r["checks"][cm.group(1)] = {"rc": int(cm.group(2)), "summary": cm.group(3).strip(), "classes": sorted(set(classes))[:4]}
    rows = []
    for mid in sorted(DESC):
        d = os.path.join(VERIF, "seeded", mid)
        if not os.path.isdir(d): continue
        prop = mid.split("-")[0]; what, needs = DESC[mid]; r = res.get(mid, {})
        caught = sorted(c for c, v in r.get("checks", {}).items() if v["rc"] == 1)
        meta = {
            "id": mid, "property": prop, "origin": "fresh sub-agent given only the property text and a scratch git worktree of xiph/vorbis (nothing from /verif)",
            "change": what, "needs_to_manifest": needs,
            "files": sorted(os.listdir(d)),
            "confirmed": {"applies_to_current_repo_head": r.get("applies"), "repository_tests_with_change": r.get("ctest_with_change"),
                          "demonstration_exit_with_change": r.get("demo_with_change_exit"), "demonstration_exit_without_change": r.get("demo_without_change_exit")},
            "what_was_run": "bin/try_mutation.sh: patch applied to a scratch worktree of /repo HEAD (never to /repo), cmake build + ctest there, the sub-agent's run.sh against that tree and against the clean tree, then `VERIF_REPO=<worktree> bin/check <ID> quick` (30 s search budget) for the checks listed",
            "checks_run": r.get("checks", {}), "caught_by": caught,
        }
        with open(os.path.join(d, "meta.json"), "w") as f: json.dump(meta, f, indent=1)
        NOTE = {
            "C11-m1": "neutralised by fix f8207e7 (vb->pcm is now reset at the start of vorbis_synthesis_trackonly, so the change no longer breaks anything: its own demonstration passes with it). Against the tree before that fix it was caught by C11 (track-only pre-roll experiment) and C07.",
            "C18-m3": "the line it edits was rewritten by fix fc2e0eb (_ov_getlap), so the patch no longer applies; the defect it re-creates (lap buffer partly uninitialised) is the one that fix removed, found by C19/C13 runs on the unchanged tree.",
        }
        if mid in NOTE:
            meta["note"] = NOTE[mid]
            with open(os.path.join(d, "meta.json"), "w") as f: json.dump(meta, f, indent=1)
        verdict = ",".join(caught) if caught else ("n/a - patch no longer applies (see meta.json)" if r.get("applies") is False else "n/a - neutralised by a later fix (see meta.json)" if r.get("demo_with_change_exit") == 0 else "MISSED" if r else "not run")
        rows.append((mid, what.split(":")[0], verdict))
    for row in rows: print("| %s | %s | %s |" % row)

main()
