#!/bin/bash
# bin/try_mutation.sh <mutation dir with patch.diff [run.sh demo.*]> <seconds> <prop> [<prop>...]
# Applies the patch to a scratch git worktree of /repo's HEAD (never to /repo itself, never committed), confirms it builds and passes
# the repository's tests, confirms the demonstration (FAIL with, PASS without), and runs the given checks' quick tier against that
# tree (VERIF_REPO).  The worktree is reset afterwards; remove it with `git -C /repo worktree remove --force /tmp/mutrun`.
set -u
D=$(readlink -f "$1"); SECS=$2; shift 2
W=${MUTRUN_DIR:-/tmp/mutrun}
if [ ! -d "$W/.git" ] && [ ! -f "$W/.git" ]; then git -C /repo worktree add --detach "$W" HEAD >/dev/null 2>&1 || { echo "WORKTREE-FAILED"; exit 2; }; fi
cd "$W" || exit 2
git checkout -q --detach "$(git -C /repo rev-parse HEAD)" 2>/dev/null; git checkout -q -- . ; git clean -qfd -e _b
restore() { git -C "$W" checkout -q -- . ; }
trap restore EXIT
tag="$(basename $(dirname $D))/$(basename $D)"
if git apply --check "$D/patch.diff" 2>/dev/null; then git apply "$D/patch.diff" || exit 3
elif patch -p1 --dry-run -s < "$D/patch.diff" >/dev/null 2>&1; then patch -p1 -s < "$D/patch.diff" || exit 3
else echo "== $tag: PATCH-DOES-NOT-APPLY"; exit 3; fi
echo "== $tag: $(git diff --stat | tail -1)"
if [ "${SKIP_CTEST:-0}" != 1 ]; then
  ( [ -d _b ] || cmake -G Ninja -B _b -S . -DCMAKE_BUILD_TYPE=Release >/dev/null 2>&1; cmake --build _b >/dev/null 2>&1 && ctest --test-dir _b -j8 --timeout 900 2>&1 | grep -E "tests passed|tests failed" || echo "BUILD-OR-TEST-FAILED" ) | sed 's/^/   ctest(mutated): /'
fi
if [ -f "$D/run.sh" ] && [ "${SKIP_DEMO:-0}" != 1 ]; then
  ( cd "$D" && timeout 900 bash ./run.sh "$W" >/tmp/try_mut_demo.$$ 2>&1; echo "   demo(mutated): exit=$? $(grep -E 'PASS|FAIL' /tmp/try_mut_demo.$$ | tail -1 | cut -c1-120)" )
fi
cd /verif
for P in "$@"; do
  out=$(VERIF_REPO="$W" VERIF_SECONDS=$SECS timeout 2400 python3 bin/check $P quick 2>&1)
  rc=$?
  echo "   check $P: rc=$rc $(echo "$out" | grep -E "^$P quick" | cut -c1-110)"
  echo "$out" | grep -E "class=|MACHINERY|BUILD" | head -5 | cut -c1-220 | sed 's/^/      /'
done
restore
trap - EXIT
if [ -f "$D/run.sh" ] && [ "${SKIP_DEMO:-0}" != 1 ]; then ( cd "$D" && timeout 900 bash ./run.sh "$W" >/tmp/try_mut_demo.$$ 2>&1; echo "   demo(clean): exit=$? $(grep -E 'PASS|FAIL' /tmp/try_mut_demo.$$ | tail -1 | cut -c1-120)" ); fi
rm -f /tmp/try_mut_demo.$$
