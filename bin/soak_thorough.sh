#!/bin/bash
# bin/soak_thorough.sh "<seeds>" "<props>" [seconds]   like soak.sh for the thorough tier (bigger recipe pools, longer histories, full enumerations)
SEEDS=$1; PROPS=$2; SECS=${3:-150}
cd "$(dirname "$0")/.."
for s in $SEEDS; do for p in $PROPS; do
  out=$(VERIF_SEED=$s VERIF_SECONDS=$SECS python3 bin/check $p thorough 2>&1); rc=$?
  echo "SOAKT $p seed=$s rc=$rc $(echo "$out" | grep -E "^$p thorough" | cut -c1-100)"
  if [ $rc -ne 0 ]; then echo "$out" | grep -E "VIOLATION|class=|MACHINERY" | head -8 | cut -c1-250 | sed 's/^/    /'; fi
done; done
