#!/bin/bash
# bin/verify_prefix.sh [props...]   run the quick tier of each check to the END of its run-index cap (time limit lifted) on /repo's current tree and
# report whether the whole prefix is free of alarms.  After this has passed for the committed code, the registered quick commands (same seed, run
# indices below the cap only) cannot raise an alarm on the unchanged tree whatever the machine's speed.  Evidence of these runs goes to build/tmp.
cd "$(dirname "$0")/.."
PROPS=${@:-C02 C03 C04 C07 C08 C09 C10 C11 C12 C13 C14 C17 C18 C19 C20}
mkdir -p build/tmp/prefix_evidence
for p in $PROPS; do
  out=$(VERIF_SECONDS=${PREFIX_SECONDS:-1200} VERIF_EVIDENCE_DIR=/verif/build/tmp/prefix_evidence python3 bin/check $p quick 2>&1); rc=$?
  full=$(python3 - "$p" <<'PY'
import json,sys
e=json.load(open('/verif/build/tmp/prefix_evidence/%s.json'%sys.argv[1]))['coverage']
cap=e.get('quick_tier_run_index_cap') or {}; got=e.get('plans_per_engine',{})
# every worker stops at the first index >= cap it owns: complete when each engine executed at least cap runs (rounded up to a multiple of the workers)
print('complete' if all(got.get(k,0)>=v for k,v in cap.items()) else 'INCOMPLETE', got, cap)
PY
)
  echo "PREFIX $p rc=$rc $full $(echo "$out" | grep -E "^$p quick" | cut -c1-100)"
  if [ $rc -ne 0 ]; then echo "$out" | grep -E "VIOLATION|class=|MACHINERY" | head -8 | cut -c1-250 | sed 's/^/    /'; fi
done
