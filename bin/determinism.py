#!/usr/bin/env python3
"""bin/determinism.py [runs-per-property] [props...]
Determinism proof: for each property, run indices 0..N-1 are executed (a) by one worker, (b) again by one worker in a new process,
(c) split over 4 workers started in the opposite order; the per-run trace hashes must agree pairwise. Exit 0 iff no divergence."""
import os, subprocess, sys
HERE = os.path.dirname(os.path.abspath(__file__)); sys.path.insert(0, HERE)
import vbuild
ENG = {"C02": "pktsim", "C03": "vfsim", "C04": "encsim", "C07": "vfsim", "C08": "vfsim", "C09": "vfsim", "C10": "vfsim", "C11": "pktsim,vfsim", "C12": "vfsim",
       "C13": "vfsim,pktsim,encsim", "C14": "encsim", "C17": "vfsim", "C18": "mtsim", "C19": "vfsim", "C20": "vfsim"}

def run(exe, prop, worker, nworkers, maxruns, seed, eng):
    cmd = [exe, "run", "--engine", eng, "--prop", prop, "--tier", "quick", "--seed", str(seed), "--worker", str(worker), "--nworkers", str(nworkers),
           "--seconds", "100000", "--maxruns", str(maxruns), "--runlog", "--noshrink", "--maxviol", "1000000", "--replaydir", "/verif/build/tmp/det_replays", "--tmpdir", "/verif/build/tmp"]
    out = subprocess.run(cmd, capture_output=True, text=True).stdout
    return {int(l.split()[1]): l.split()[2] for l in out.splitlines() if l.startswith("RUN ")}

def main():
    n = int(sys.argv[1]) if len(sys.argv) > 1 else 120
    props = sys.argv[2:] or sorted(ENG)
    exe = vbuild.build()
    if not exe: sys.exit(2)
    bad = 0; total = 0
    for p in props:
      for eng in ENG[p].split(","):
        a = run(exe, p, 0, 1, n, 424242, eng); b = run(exe, p, 0, 1, n, 424242, eng)
        c = {}
        for w in (3, 2, 1, 0): c.update(run(exe, p, w, 4, (n + 3) // 4, 424242, eng))
        div = [i for i in range(n) if not (a.get(i) == b.get(i) == c.get(i)) or a.get(i) is None]
        total += n; bad += len(div)
        print(f"DETERMINISM {p}/{eng}: {n} runs x 3 executions, {len(div)} divergent" + (f" (first: run {div[0]}: {a.get(div[0])} {b.get(div[0])} {c.get(div[0])})" if div else ""), flush=True)
    print(f"DETERMINISM total {total} runs, {bad} divergent")
    sys.exit(1 if bad else 0)
main()
