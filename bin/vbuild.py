#!/usr/bin/env python3
"""Build simvorbis from /repo's current working tree (library objects instrumented) + /verif/sim.
Cached under /verif/build/<hash of every input byte>; any change to /repo/lib, /repo/include or /verif/sim rebuilds."""
import hashlib, os, subprocess, sys, glob, shutil, time
from concurrent.futures import ThreadPoolExecutor

REPO = os.environ.get("VERIF_REPO", "/repo")
VERIF = os.path.dirname(os.path.dirname(os.path.abspath(__file__)))
BUILD = os.path.join(VERIF, "build")
LIBSRC = ["mdct", "smallft", "block", "envelope", "window", "lsp", "lpc", "analysis", "synthesis", "psy", "info", "floor1", "floor0",
          "res0", "mapping0", "registry", "codebook", "sharedbook", "lookup", "bitrate", "vorbisfile", "vorbisenc"]
SIMSRC = ["seams", "corpus", "craft", "main", "vfstream", "vfdamage", "vfsim", "vfgen", "pktsim", "encsim", "mtsim", "stubs"]
SAN = "-fsanitize=address,integer-divide-by-zero,bounds -fno-sanitize-recover=integer-divide-by-zero,bounds -fno-omit-frame-pointer"
CFLAGS = f"-O1 -g -gline-tables-only {SAN} -fsanitize-coverage=trace-pc-guard,pc-table -DXIPH_VORBIS_VERIF -I{REPO}/include -I{REPO}/lib -w"
CXXFLAGS = f"-std=c++17 -O1 -g -gline-tables-only {SAN} -I{REPO}/include -I{REPO}/lib -I{VERIF}/sim -Wall -Wno-unused-function -Wno-unused-variable -Wno-unused-but-set-variable"
LDFLAGS = f"{SAN} -Wl,--wrap=malloc,--wrap=calloc,--wrap=realloc,--wrap=free,--wrap=exit,--wrap=abort,--wrap=_exit /usr/lib/x86_64-linux-gnu/libogg.a -lm -lpthread"


def tree_hash():
    h = hashlib.sha256()
    files = []
    for root in (f"{REPO}/lib", f"{REPO}/include"):
        for d, _, fs in os.walk(root):
            for f in fs:
                if f.endswith((".c", ".h")):
                    files.append(os.path.join(d, f))
    files += glob.glob(f"{VERIF}/sim/*.cpp") + glob.glob(f"{VERIF}/sim/*.hpp") + glob.glob(f"{VERIF}/sim/*.inc") + [os.path.abspath(__file__)]
    for f in sorted(files):
        h.update(f.encode()); h.update(b"\0")
        with open(f, "rb") as fh:
            h.update(fh.read())
    h.update((CFLAGS + CXXFLAGS + LDFLAGS).encode())
    return h.hexdigest()[:20]


def run(cmd):
    r = subprocess.run(cmd, shell=True, capture_output=True, text=True)
    return r.returncode, r.stdout + r.stderr


def build(verbose=False):
    key = tree_hash()
    out = os.path.join(BUILD, key)
    exe = os.path.join(out, "simvorbis")
    if os.path.exists(os.path.join(out, ".ok")) and os.path.exists(exe):
        return exe
    os.makedirs(out, exist_ok=True)
    t0 = time.time()
    jobs = []
    for s in LIBSRC:
        # psy.c is encoder-only; its noiseoff[j][P_BANDS] read (weight 0) trips -fsanitize=bounds and is outside every claimed property
        extra = " -fno-sanitize=bounds" if s in ("psy",) else ""
        jobs.append(f"clang {CFLAGS}{extra} -c {REPO}/lib/{s}.c -o {out}/lib_{s}.o")
    sims = [s for s in SIMSRC if os.path.exists(f"{VERIF}/sim/{s}.cpp")]
    for s in sims:
        jobs.append(f"clang++ {CXXFLAGS} -c {VERIF}/sim/{s}.cpp -o {out}/sim_{s}.o")
    with ThreadPoolExecutor(max_workers=16) as ex:
        res = list(ex.map(run, jobs))
    for (rc, txt), j in zip(res, jobs):
        if rc != 0:
            sys.stderr.write(f"BUILD FAILED: {j}\n{txt}\n")
            shutil.rmtree(out, ignore_errors=True)
            return None
        if verbose and txt.strip():
            sys.stderr.write(txt)
    objs = " ".join([f"{out}/lib_{s}.o" for s in LIBSRC] + [f"{out}/sim_{s}.o" for s in sims])
    rc, txt = run(f"clang++ {objs} {LDFLAGS} -o {exe}")
    if rc != 0:
        sys.stderr.write(f"LINK FAILED\n{txt}\n")
        shutil.rmtree(out, ignore_errors=True)
        return None
    for o in glob.glob(f"{out}/*.o"):
        os.unlink(o)
    open(os.path.join(out, ".ok"), "w").write(str(time.time()))
    # keep the cache small: drop all but the 10 most recent builds (and nothing younger than an hour)
    dirs = sorted([d for d in glob.glob(f"{BUILD}/*") if os.path.isdir(d) and os.path.exists(os.path.join(d, ".ok"))], key=os.path.getmtime)
    for d in dirs[:-10]:
        if time.time() - os.path.getmtime(d) > 3600:   # another check may still be running from a recent build
            shutil.rmtree(d, ignore_errors=True)
    if verbose:
        sys.stderr.write(f"built {exe} in {time.time()-t0:.1f}s\n")
    return exe


if __name__ == "__main__":
    e = build(verbose=True)
    if not e:
        sys.exit(2)
    print(e)
