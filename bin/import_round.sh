#!/bin/bash
# bin/import_round.sh <round tag, e.g. r5> <prop>...   copy a seeding sub-agent's deliverables /tmp/mut_<prop><round>.out/m<i> to seeded/<prop>-<round>m<i>/
R=$1; shift
for P in "$@"; do for i in 1 2 3; do S=/tmp/mut_${P}${R}.out/m$i; [ -f $S/patch.diff ] || continue; D=/verif/seeded/$P-${R}m$i; mkdir -p $D; cp $S/patch.diff $S/run.sh $S/notes.md $D/ 2>/dev/null; cp $S/demo.* $D/ 2>/dev/null; echo "imported $D"; done; done
