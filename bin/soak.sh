#!/bin/bash
# bin/soak.sh "<seeds>" "<props>" [seconds]   run the quick tier of each property under several VERIF_SEED values; anything but rc=0 is printed with detail
SEEDS=$1; PROPS=$2; SECS=${3:-40}
cd "$(dirname "$0")/.."
for s in $SEEDS; do for p in $PROPS; do
  out=$(VERIF_SEED=$s VERIF_SECONDS=$SECS python3 bin/check $p quick 2>&1); rc=$?
  echo "SOAK $p seed=$s rc=$rc $(echo "$out" | grep -E "^$p quick" | cut -c1-100)"
  if [ $rc -ne 0 ]; then echo "$out" | grep -E "VIOLATION|class=|MACHINERY" | head -8 | cut -c1-250 | sed 's/^/    /'; fi
done; done
