// vfsim.cpp — vorbisfile under simulation: executes an op list against the real library over SimFile
// and checks every step against the reference model (StreamRef / LinkRef / PosModel / mirror twin).
#include "vfsim.hpp"
#include <xmmintrin.h>
#include <cfenv>

extern "C" { int xiph_vorbis_verif_chunksize = 65536; int xiph_vorbis_verif_readsize = 2048; }

Plan vfsim_gen(const GenCfg &cfg);
std::vector<Plan> vfsim_simplify(const Plan &p);

namespace {

struct FpEnv { unsigned mxcsr; unsigned short cw; int rnd; };
FpEnv fpenv() { FpEnv e; e.mxcsr = _mm_getcsr() & ~0x3Fu; __asm__ volatile("fnstcw %0" : "=m"(e.cw)); e.rnd = fegetround(); return e; }

bool documented_code(long r) { return (r <= -1 && r >= -3) || (r <= -128 && r >= -138); }

struct Handle {
  unsigned char *mem = nullptr; OggVorbis_File *vf = nullptr; SimFile sf; FILE *fp = nullptr;
  bool open = false, part = false, ever_ok = false, alloc = false, static_mem = false;
  int hr = 0;                 // model: half-rate flag
  bool hr_touched = false;    // any ov_halfrate call so far
  bool seekable = true;
  bool linear = true;         // no seek so far (history is a linear read from open)
  int lin_link = 0; int64_t lin_off = 0;  // streaming model: next expected output sample
  int64_t model_pos = 0;      // seekable model: expected ov_pcm_tell, -1 unknown
  bool pos_known = true;
  int64_t since_hole = -1;    // hole mode: samples delivered since OV_HOLE was reported (-1: not yet)
  bool io_dirty = false;      // an I/O fault fired since the last successful seek
  bool saw_fault = false;
  int expect_close = 0;
  bool hole_seen = false;
  bool just_sought = false; int reads_since_seek = 0;
  int last_section = -1;      // logical stream index of the last successful read (the link table is asked again when it changes)
  bool lap_dirty = false;     // a lapped seek outside twin mode altered the next samples
  Hasher obs;                 // everything this handle let the caller observe (twin comparison)
};

struct OpRes {
  long ret = 0; int section = -12345; int64_t t0 = 0, t1 = 0; std::vector<std::vector<float>> pcm; std::vector<uint8_t> buf; int nch = 0;
};

struct VfRun {
  const Plan &plan; StreamRef sr; std::string prop, mode; Hasher h; Outcome out;
  int hole_checked = 0; bool extra_handle = false;   // extra_handle: B was opened on demand for an ov_crosslap outside twin mode
  Handle A, B;   // B: mirror twin (C19 lapping, bs64 refusal) or crosslap partner
  bool mirror = false; bool intact = true; bool iofault = false;
  bool compared_after_seek = false; int n_seek_ok = 0; bool any_fault_fired = false;
  uint64_t budget_base = 0;
  int poison_mode = 4; uint64_t poison_seed = 1;
  int opi = 0; std::string opname;
  bool ended = false; bool faulted_open = false; bool recovered = false;
  uint64_t api_calls = 0;
  const StreamRef *preset = nullptr;      // stream built once by the caller (fault enumeration re-executes one scenario many times)
  std::vector<int> op_callbacks;          // callbacks the primary handle's source served during each op (index = op index)

  explicit VfRun(const Plan &p) : plan(p) {}

  // streams whose audio is not granule-consistent with the reference model: page damage, or the 64-sample-block header rewrite
  // (the bundled encoder cannot emit 64-sample short blocks; the header-rewritten link decodes safely but its granule positions do not
  //  match its audio, so nothing position-exact is demanded of it - see DESIGN C20)
  bool inexact() const { return sr.damaged || sr.ambiguous_cut || sr.bs64_rewritten; }
  // ---- verdicts
  bool mine(std::initializer_list<const char *> props) { for (auto p : props) if (prop == p) return true; return false; }
  [[noreturn]] void fail(const std::string &site, const std::string &sym, const std::string &detail, std::map<std::string, std::string> facts = {}) {
    SimViolation v; v.prop = prop; v.cls = prop + "/" + site + "/" + sym; v.detail = fmt("op#%d %s: ", opi, opname.c_str()) + detail; v.facts = facts; throw v;
  }
  void check(bool cond, std::initializer_list<const char *> props, const std::string &site, const std::string &sym, const std::string &detail, std::map<std::string, std::string> facts = {}) {
    if (cond) return;
    if (mine(props)) fail(site, sym, detail, facts);
    g_stats.inc("other_property_observation." + site + "/" + sym);
  }

  // ---- handle management
  void halloc(Handle &H) {
    // three runs in five keep the handle in the same static storage, as an application with a global OggVorbis_File does: whatever the library keeps
    // outside its objects under a handle's address then meets the next stream opened there (process history, see main.cpp: preludes)
    alignas(64) static unsigned char arena[2][sizeof(OggVorbis_File) + 64];
    H.static_mem = (poison_seed % 5) < 3; if (H.static_mem) g_stats.inc("probe.handle_in_reused_static_storage");
    H.mem = H.static_mem ? arena[&H == &B ? 1 : 0] : new unsigned char[sizeof(OggVorbis_File) + 64]; Prng pr(poison_seed ^ 0x77);
    for (size_t i = 0; i < sizeof(OggVorbis_File) + 64; i++) H.mem[i] = poison_mode == 0 ? 0 : poison_mode == 1 ? 0xFF : poison_mode == 2 ? 0xAA : (unsigned char)pr.next();
    H.vf = (OggVorbis_File *)H.mem; H.alloc = true;
  }
  void setup_file(Handle &H, const Rec &f, int id) {
    H.sf = SimFile(); H.sf.bytes = &sr.bytes; H.sf.seekable = f.i("seekable", 1) != 0; H.sf.rdpol = (int)f.i("rdpol", 0); H.sf.rdk = (int)f.i("rdk", 64); H.sf.rdrng.reseed(f.u("rdseed", 1) + id); H.sf.id = id; H.sf.errno_noise = (int)f.i("errnoise", 0); H.sf.enrng.reseed(f.u("rdseed", 1) * 3 + 11);
    H.seekable = H.sf.seekable;
  }
  // a cookie read function reports an error as -1 (0 would be end-of-file to stdio, which then also forgets its file offset)
  static ssize_t ck_read(void *c, char *b, size_t n) { SimFile *s = (SimFile *)c; uint64_t i0 = s->n_injected; errno = 0; size_t got = s->do_read(b, 1, n); if (got == 0 && s->n_injected > i0 && errno == EIO) return -1; return (ssize_t)got; }
  static int ck_seek(void *c, off64_t *o, int w) { SimFile *s = (SimFile *)c; if (s->do_seek(*o, w)) return -1; *o = s->pos; return 0; }
  static int ck_close(void *c) { return ((SimFile *)c)->do_close(); }

  long do_open(Handle &H, const Rec &f, const Rec &op) {
    int how = (int)op.i("how", f.i("open", 0)); int ib = (int)op.i("ibytes", f.i("ibytes", 0));
    ov_callbacks cb = {SimFile::cb_read, SimFile::cb_seek, SimFile::cb_close, SimFile::cb_tell};
    if (f.i("noseekfn", 0) && !H.sf.seekable) { cb.seek_func = nullptr; cb.tell_func = nullptr; }
    if (f.i("noclosefn", 0)) cb.close_func = nullptr;
    std::vector<char> initial;
    if (ib > 0) { ib = (int)std::min<size_t>((size_t)ib, sr.bytes.size()); initial.assign(sr.bytes.begin(), sr.bytes.begin() + ib); H.sf.pos = ib; }   // bytes the application has already read (sniffing the format) are handed over; the source stands behind them, seekable or not
    else ib = 0;
    long r;
    if (how == 2 || how == 3) {
      cookie_io_functions_t io = {ck_read, nullptr, ck_seek, ck_close};
      H.sf.read_faults_only = true;
      H.fp = fopencookie(&H.sf, "rb", io); setvbuf(H.fp, nullptr, _IOFBF, (size_t)std::max<int64_t>(16, f.i("stdiobuf", 512)));
      if (how == 2) r = ov_open(H.fp, H.vf, ib ? initial.data() : nullptr, ib);
      else { r = ov_test(H.fp, H.vf, ib ? initial.data() : nullptr, ib); if (r == 0) { H.part = true; if (!op.i("notestopen", 0)) { r = ov_test_open(H.vf); H.part = false; if (r) H.open = false; } } }   // the two-stage open over stdio
      if (r) { H.sf.n_close = 0; }   // caller still owns FILE; we leave it (closing it is the caller's business, not counted)
    } else if (how == 1) {
      r = ov_test_callbacks(&H.sf, H.vf, ib ? initial.data() : nullptr, ib, cb);
      if (r == 0) { H.part = true; if (!op.i("notestopen", 0)) { r = ov_test_open(H.vf); H.part = false; if (r) { H.open = false; } } }
    } else {
      r = ov_open_callbacks(&H.sf, H.vf, ib ? initial.data() : nullptr, ib, cb);
    }
    if (r == 0 && !H.part) { H.open = true; H.ever_ok = true; }
    if (r == 0) H.expect_close = (f.i("noclosefn", 0) && how != 2 && how != 3) ? 0 : 1;   // ov_open / ov_test install their own fclose callback
    return r;
  }

  // ---- reference access
  const std::vector<std::vector<float>> &refpcm(int link, int hr) { Link &l = *sr.ps.links[link]; if (hr) { ensure_half(l); return l.pcm_half; } return l.pcm; }
  int64_t reflen(int link, int hr) { Link &l = *sr.ps.links[link]; if (hr) { ensure_half(l); return l.len_half; } return l.len; }

  uint64_t op_budget() {
    // seam events an op may use: polynomial in size/bytes-per-read (backward scans re-read a chunk per step). Calibrated on clean runs, see DESIGN §6 C03.
    double eff = A.sf.rdpol == 1 ? 1 : A.sf.rdpol == 2 ? std::min(A.sf.rdk, xiph_vorbis_verif_readsize) : A.sf.rdpol == 3 ? std::max(1, std::min(A.sf.rdk, xiph_vorbis_verif_readsize) / 2) : A.sf.rdpol == 4 ? 2 : xiph_vorbis_verif_readsize;
    if (A.sf.active_kind == IOF_SHORT1) eff = 1; for (auto &f : A.sf.faults) if (f.kind == IOF_SHORT1) eff = 1;   // a source that has started to deliver one byte per call
    double reads = (double)sr.bytes.size() / eff + 64; double chunks = (double)sr.bytes.size() / xiph_vorbis_verif_chunksize + 2;
    double b = 20000 + 60.0 * reads * (sr.nlinks + 4) + 40.0 * reads * std::min(chunks, 64.0) * (sr.damaged ? 4 : 1);
    static const double mult = getenv("VERIF_BUDGET_MULT") ? atof(getenv("VERIF_BUDGET_MULT")) : 1.0;   // calibration aid; never set by the checks
    return (uint64_t)std::min(b * mult, 4e12);
  }

  // ---- one API call wrapper: stack scribble, fp env, clock budget
  template <class F> auto api(const char *name, F f) -> decltype(f()) {
    g_sim.cur_op = opi; g_sim.cur_op_name = name; g_sim.op_events = 0; g_sim.op_budget = op_budget();
    if (name[3] == 'r' && name[4] == 'e' && (++api_calls & 31)) stack_scribble_small(poison_mode, poison_seed + opi); else stack_scribble(poison_mode, poison_seed + opi);   // ov_read*: full-depth scribble every 32nd call
    FpEnv e0 = fpenv();
    auto r = f();
    FpEnv e1 = fpenv();
    g_stats.max("max.op_events_permille_of_budget", g_sim.op_events * 1000 / std::max<uint64_t>(1, g_sim.op_budget));
    g_sim.op_budget = 0;
    check(e0.mxcsr == e1.mxcsr && e0.cw == e1.cw && e0.rnd == e1.rnd, {"C17", "C18"}, name, "fp-env-changed", fmt("mxcsr %x->%x cw %x->%x", e0.mxcsr, e1.mxcsr, e0.cw, e1.cw));
    return r;
  }

  void run();
  void exec_op(const Rec &op, Handle &H, bool is_mirror);
  long read_float(Handle &H, int len, OpRes &r);
  long read_int(Handle &H, const Rec &op, OpRes &r);
  void oracle_read(Handle &H, const OpRes &r, bool is_int, const Rec &op);
  bool read_explained_at(Handle &H, const OpRes &r, bool is_int, const Rec &op, int64_t p);
  int odd_links() const { int n = 0; for (int i = 0; i < sr.nlinks; i++) if (sr.ps.links[i]->len & 1) n++; return n; }
  void oracle_seek(Handle &H, const Rec &op, const std::string &kind, long ret, int64_t t0, int64_t t1, bool lap);
  void oracle_open(Handle &H, long ret);
  void link_table(Handle &H, const char *site, std::initializer_list<const char *> P = {"C09"}, bool force = false);
  std::vector<IoFault> parse_fault_str(const std::string &s);
  static float filter_gain(const Rec &op) { return op.s("kind") == "read_filter" ? (float)op.f("gain", 0.5) : 1.f; }
  void expected_int(const float *const *chan, int nch, int64_t off, int frames, int word, int sgned, int be, std::vector<uint8_t> &lo, std::vector<uint8_t> &hi, float gain = 1.f);
  void finish(Handle &H, bool twice);
  void lap_op(const Rec &op, const std::string &kind);
  void oracle_seek_faulted(Handle &H, const Rec &op, const std::string &kind, const std::string &site, long ret, int64_t t1, bool was_dirty);
  void crosslap_op(const Rec &op);
  void closed_handle_op(const Rec &op, const std::string &k);
  void halfrate_op(Handle &H, const Rec &op);
  bool in_range(const std::string &kind, const Rec &op, int64_t &target_pos, double &texact);
  long do_seek_call(Handle &H, const std::string &kind, const Rec &op, bool lap);
  std::vector<IoFault> parse_faults(const Rec &op);
  void drain_compare(Handle &H, int64_t want);
};

std::vector<IoFault> VfRun::parse_faults(const Rec &op) { return parse_fault_str(op.s("fault")); }
std::vector<IoFault> VfRun::parse_fault_str(const std::string &s) {
  std::vector<IoFault> v;
  if (s.empty()) return v;
  // KIND@ord  | KIND@ord:p (persist until heal) | KIND@ord:N (N calls)
  auto at = s.find('@'); if (at == std::string::npos) return v;
  IoFault f; f.kind = iof_parse(s.substr(0, at)); auto col = s.find(':', at);
  f.ord = atoi(s.substr(at + 1, col == std::string::npos ? std::string::npos : col - at - 1).c_str());
  if (col != std::string::npos) { std::string p = s.substr(col + 1); f.persist = p == "p" ? -1 : atoi(p.c_str()); }
  v.push_back(f); return v;
}

long VfRun::read_float(Handle &H, int len, OpRes &r) {
  float **pcm = nullptr; r.t0 = ov_pcm_tell(H.vf);
  r.ret = api("ov_read_float", [&] { return ov_read_float(H.vf, &pcm, len, &r.section); });
  r.t1 = ov_pcm_tell(H.vf);
  if (r.ret > 0) {
    vorbis_info *vi = ov_info(H.vf, -1); r.nch = vi ? vi->channels : 0;
    r.pcm.resize(r.nch); for (int c = 0; c < r.nch; c++) r.pcm[c].assign(pcm[c], pcm[c] + r.ret);
    for (int c = 0; c < r.nch; c++) h.f32s(r.pcm[c].data(), r.pcm[c].size());
  }
  h.i64(r.ret); h.i64(r.t1);
  H.obs.i64(r.ret); H.obs.i64(r.t0); H.obs.i64(r.t1); if (r.ret > 0) { H.obs.i64(r.section); for (int c = 0; c < r.nch; c++) H.obs.f32s(r.pcm[c].data(), r.pcm[c].size()); }
  return r.ret;
}

long VfRun::read_int(Handle &H, const Rec &op, OpRes &r) {
  int len = (int)op.i("len", 4096), word = (int)op.i("word", 2), sg = (int)op.i("sgned", 1), be = (int)op.i("be", 0);
  r.buf.assign((size_t)std::max(0, len) + 64, 0); for (size_t i = 0; i < r.buf.size(); i++) r.buf[i] = (uint8_t)(0xC5 ^ (i * 7));
  r.t0 = ov_pcm_tell(H.vf);
  bool filt = op.s("kind") == "read_filter";
  struct FiltArg { int calls; float gain; }; static FiltArg fa; fa.calls = 0; fa.gain = filter_gain(op);
  // a non-idempotent filter (a power-of-two gain, exact in binary floating point): whatever it is applied to twice, or not at all, shows in the
  // bytes; the large gains push ordinary audio far outside +-1 and beyond the int range of the conversion, in every output format
  auto filter = +[](float **pcm, long channels, long samples, void *p) { FiltArg *a = (FiltArg *)p; a->calls++; for (long c = 0; c < channels; c++) for (long i = 0; i < samples; i++) pcm[c][i] *= a->gain; };
  r.ret = api(filt ? "ov_read_filter" : "ov_read", [&] { return filt ? ov_read_filter(H.vf, (char *)r.buf.data(), len, be, word, sg, &r.section, filter, &fa) : ov_read(H.vf, (char *)r.buf.data(), len, be, word, sg, &r.section); });
  r.t1 = ov_pcm_tell(H.vf);
  if (r.ret > 0) h.bytes(r.buf.data(), (size_t)r.ret);
  h.i64(r.ret); h.i64(r.t1);
  H.obs.i64(r.ret); H.obs.i64(r.t0); H.obs.i64(r.t1); if (r.ret > 0) { H.obs.i64(r.section); H.obs.bytes(r.buf.data(), (size_t)r.ret); }
  return r.ret;
}

void VfRun::expected_int(const float *const *chan, int nch, int64_t off, int frames, int word, int sgned, int be, std::vector<uint8_t> &lo, std::vector<uint8_t> &hi, float gain) {
  lo.clear(); hi.clear();
  for (int j = 0; j < frames; j++) for (int c = 0; c < nch; c++) {
    double y = (double)(chan[c][off + j] * gain) * (word == 1 ? 128.0 : 32768.0);
    if (std::isnan(y)) y = 0;   // not a number: nothing to round or clip; the comparison skips these (nan_at)
    if (y > 1e12) y = 1e12; if (y < -1e12) y = -1e12;   // infinities and the like clip
    double fl = floor(y); long a, b;
    if (y - fl == 0.5) { a = (long)fl; b = (long)fl + 1; } else { a = b = (long)floor(y + 0.5); }
    long mn = word == 1 ? -128 : -32768, mx = word == 1 ? 127 : 32767;
    a = std::max(mn, std::min(mx, a)); b = std::max(mn, std::min(mx, b));
    long offv = sgned ? 0 : (word == 1 ? 128 : 32768);
    for (int which = 0; which < 2; which++) {
      long v = (which ? b : a) + offv; auto &o = which ? hi : lo;
      if (word == 1) o.push_back((uint8_t)v);
      else if (be) { o.push_back((uint8_t)((v >> 8) & 0xff)); o.push_back((uint8_t)(v & 0xff)); }
      else { o.push_back((uint8_t)(v & 0xff)); o.push_back((uint8_t)((v >> 8) & 0xff)); }
    }
  }
}

// would this read be exactly right if the true position were p? (used only for the half-rate position slack, see oracle_read)
bool VfRun::read_explained_at(Handle &H, const OpRes &r, bool is_int, const Rec &op, int64_t p) {
  int hr = H.hr, hs = hr ? 1 : 0;
  if (p < 0) return false;
  if (p >= sr.total) return r.ret == 0;
  int link = sr.link_of(p); int64_t off = (p - sr.start[link]) >> hs; if ((p - sr.start[link]) & 1) return false;
  int nch = sr.ps.links[link]->r.ch; int64_t avail = reflen(link, hr) - off;
  if (avail <= 0) return false;
  if (r.ret <= 0 || r.section != link) return false;
  auto &ref = refpcm(link, hr);
  if (is_int) {
    int word = (int)op.i("word", 2), sg = (int)op.i("sgned", 1), be = (int)op.i("be", 0); if (word <= 0) return false;
    int frame = word * nch; if (r.ret % frame) return false; int frames = (int)(r.ret / frame); if (frames > avail) return false;
    std::vector<const float *> ch(nch); for (int c = 0; c < nch; c++) ch[c] = ref[c].data();
    std::vector<uint8_t> lo, hi; expected_int(ch.data(), nch, off, frames, word, sg, be, lo, hi, filter_gain(op));
    for (size_t i = 0; i < lo.size(); i += word) { if (std::isnan(ch[(i / (size_t)word) % (size_t)nch][off + (int64_t)(i / (size_t)frame)])) continue; bool a = !memcmp(&r.buf[i], &lo[i], word), b = !memcmp(&r.buf[i], &hi[i], word); if (!a && !b) return false; }
    return true;
  }
  if (r.nch != nch || r.ret > avail) return false;
  for (int c = 0; c < nch; c++) if (memcmp(r.pcm[c].data(), ref[c].data() + off, (size_t)r.ret * sizeof(float))) return false;
  return true;
}

// compare one read against the model. Seekable handles: reference at the position ov_pcm_tell reported before the call.
void VfRun::oracle_read(Handle &H, const OpRes &r, bool is_int, const Rec &op) {
  const char *site = is_int ? "ov_read" : "ov_read_float";
  if (sr.hole && !is_int && !H.io_dirty && !H.hr_touched) {
    // C11, vorbisfile level: one page is missing, rejected or repeated. The call that meets the gap reports OV_HOLE; audio and positions around it
    // are the decoder's best effort; but everything delivered before the page in front of the gap, and everything from three pages after
    // it on, is bit-identical to the undisturbed stream *at the position reported for it*.
    std::initializer_list<const char *> P = {"C11"};
    { static const bool trace = getenv("VERIF_TRACE") != nullptr; if (trace) fprintf(stderr, "TRACE hole-read t0=%lld ret=%ld t1=%lld window=[%lld,%lld) total=%lld\n", (long long)r.t0, r.ret, (long long)r.t1, (long long)sr.hole_lo, (long long)sr.hole_hi, (long long)sr.total); }
    if (r.ret == OV_HOLE) { g_stats.inc("probe.hole_reported"); H.since_hole = 0; return; }
    check(r.ret >= 0 || documented_code(r.ret), {"C11", "C03"}, site, "undocumented-return", fmt("ret=%ld", r.ret));
    if (r.ret < 0) return;
    int64_t T0 = r.t0, n = r.ret;
    // "after": the gap has been reported and more than the window's worth of samples has been delivered since (a repeated page replays its
    // audio under positions that run ahead until its own last packet re-anchors them, so the reported position alone does not say where we are)
    bool before = H.since_hole < 0 && T0 >= 0 && T0 + n <= sr.hole_lo, after = H.since_hole >= sr.hole_w;
    if (H.since_hole >= 0 && !after) H.since_hole += std::max<int64_t>(n, 0);
    if (!before && !after) { g_stats.inc("probe.hole_reads_in_window"); return; }
    if (r.ret == 0) { check(T0 >= sr.total, P, site, "end-of-stream-before-the-end", fmt("tell=%lld total=%lld", (long long)T0, (long long)sr.total)); return; }
    check(T0 < sr.total, P, site, "data-past-the-end", fmt("tell=%lld total=%lld ret=%ld", (long long)T0, (long long)sr.total, r.ret)); if (T0 >= sr.total) return;
    int l = sr.link_of(T0); int64_t o = T0 - sr.start[l]; auto &ref = refpcm(l, 0);
    check(r.nch == sr.ps.links[(size_t)l]->r.ch && o + n <= reflen(l, 0), P, site, "shape-differs-after-gap", fmt("ch=%d want %d, off=%lld n=%lld len=%lld", r.nch, sr.ps.links[(size_t)l]->r.ch, (long long)o, (long long)n, (long long)reflen(l, 0)), {{"side", before ? "before" : "after"}});
    if (r.nch != sr.ps.links[(size_t)l]->r.ch || o + n > reflen(l, 0)) return;
    for (int c = 0; c < r.nch; c++) if (memcmp(r.pcm[(size_t)c].data(), ref[(size_t)c].data() + o, (size_t)n * sizeof(float))) {
      int64_t i = 0; while (i < n && !memcmp(&r.pcm[(size_t)c][(size_t)i], &ref[(size_t)c][(size_t)(o + i)], 4)) i++;
      check(false, P, site, "samples-differ-away-from-the-gap", fmt("position %lld (+%lld) ch %d: %g, undisturbed %g; gap window [%lld,%lld)", (long long)T0, (long long)i, c, r.pcm[(size_t)c][(size_t)i], ref[(size_t)c][(size_t)(o + i)], (long long)sr.hole_lo, (long long)sr.hole_hi), {{"side", before ? "before" : "after"}});
    }
    check(r.t1 == T0 + n, P, site, "position-advance-differs", fmt("%lld -> %lld after %lld samples", (long long)T0, (long long)r.t1, (long long)n), {{"side", before ? "before" : "after"}});
    hole_checked++; g_stats.inc(before ? "probe.hole_reads_checked_before" : "probe.hole_reads_checked_after");
    return;
  }
  bool faultless = !H.io_dirty && !inexact() && !H.lap_dirty;
  if (!faultless) {   // relaxed: may fail or end early, never out-of-contract values
    check(r.ret >= 0 || documented_code(r.ret), {"C03", "C12"}, site, "undocumented-return", fmt("ret=%ld", r.ret));
    return;
  }
  bool c20ctx = H.hr_touched; bool lin = H.linear && !H.hr_touched;
  auto P = [&]() -> std::initializer_list<const char *> {
    static const std::initializer_list<const char *> a = {"C20", "C17"}, b = {"C07", "C09", "C10", "C12", "C17"}, c = {"C07", "C12", "C17", "C08"}, d = {"C10", "C17"};
    if (!H.seekable) return c20ctx ? a : d;
    if (c20ctx) return a; return lin ? b : c;
  };
  int len = (int)op.i("len", 4096);
  int hr = H.hr; int hs = hr ? 1 : 0;
  // where does the model say we are?
  int link; int64_t off;   // output-sample offset inside link's reference
  bool skip_content = false;
  if (H.seekable) {
    int64_t T = r.t0;
    // Half rate: a link of odd length N delivers ceil(N/2) samples and the position advances by two per sample, so the two clauses
    // of C20 put the position one past the end of every odd-length link that was played through; vorbisfile re-synchronises at the
    // next packet that carries a granule position. The statement is contradictory there, so the oracle accepts a position that is
    // ahead by at most one sample per odd-length link, provided the data is exactly the half-rate reference at the corrected position.
    int slack = hr ? odd_links() : 0;
    if (slack && (int)op.i("word", 2) > 0) {
      bool exact0 = read_explained_at(H, r, is_int, op, T);
      if (!exact0) for (int d = 1; d <= slack; d++) if (read_explained_at(H, r, is_int, op, T - d)) {
        g_stats.inc("c20.position_ahead_after_odd_link_accepted");
        int64_t adv = is_int ? r.ret / (std::max(1, (int)op.i("word", 2)) * std::max(1, r.ret > 0 ? sr.ps.links[sr.link_of(std::min(T - d, sr.total - 1))]->r.ch : 1)) : r.ret;
        check(r.t1 <= r.t0 + 2 * adv && r.t1 >= r.t0 + 2 * adv - slack, P(), site, "tell-advance", fmt("%lld->%lld samples=%lld", (long long)r.t0, (long long)r.t1, (long long)adv));
        compared_after_seek |= H.just_sought; H.reads_since_seek++; return;
      }
    }
    bool past_odd_end = hr && T > sr.total && T <= sr.total + slack;
    check((T >= 0 && T <= sr.total) || past_odd_end, P(), site, "tell-out-of-range", fmt("tell=%lld total=%lld", (long long)T, (long long)sr.total));
    if (T < 0 || (T > sr.total && !past_odd_end)) return;
    if (T >= sr.total) {
      if (is_int && ((int)op.i("word", 2) <= 0)) { check(r.ret == OV_EINVAL, {"C17"}, site, "bad-word-accepted", fmt("ret=%ld", r.ret)); return; }
      // half rate, odd-length link(s) played through: the position may already read `total` while the last (odd) sample is still pending, so a
      // buffer too small for one frame is refused rather than told "end of stream"
      if (slack && is_int && r.ret == OV_EINVAL && len < std::max(1, (int)op.i("word", 2)) * sr.ps.links[(size_t)sr.nlinks - 1]->r.ch) { g_stats.inc("c20.small_buffer_at_odd_end_accepted"); return; }
      check(r.ret == 0, P(), site, "no-eof-at-total", fmt("tell=total=%lld ret=%ld", (long long)T, r.ret));
      check(r.t1 == r.t0, P(), site, "tell-moved-at-eof", fmt("%lld->%lld", (long long)r.t0, (long long)r.t1));
      return;
    }
    link = sr.link_of(T); off = (T - sr.start[link]) >> hs;
    if (hr && ((T - sr.start[link]) & 1)) { skip_content = true; g_stats.inc("c20.odd_link_offset_content_skipped"); }
  } else {
    // skip exhausted links
    while (H.lin_link < sr.nlinks && H.lin_off >= reflen(H.lin_link, hr)) { H.lin_link++; H.lin_off = 0; }
    if (H.lin_link >= sr.nlinks) {
      if (is_int && ((int)op.i("word", 2) <= 0)) return;
      check(r.ret == 0, P(), site, "no-eof-at-end", fmt("ret=%ld", r.ret)); return;
    }
    link = H.lin_link; off = H.lin_off;
  }
  int nch = sr.ps.links[link]->r.ch;
  int64_t avail = reflen(link, hr) - off;
  if (is_int) {
    int word = (int)op.i("word", 2), sg = (int)op.i("sgned", 1), be = (int)op.i("be", 0);
    if (word <= 0) { check(r.ret == OV_EINVAL, {"C17"}, site, "bad-word-accepted", fmt("word=%d ret=%ld", word, r.ret)); check(r.t1 == r.t0, {"C17"}, site, "position-moved-on-error", ""); for (size_t i = 0; i < r.buf.size(); i++) check(r.buf[i] == (uint8_t)(0xC5 ^ (i * 7)), {"C17"}, site, "buffer-written-on-error", fmt("byte %zu", i)); return; }
    int frame = word * nch;
    if (len < frame) {
      check(r.ret == OV_EINVAL, {"C17"}, site, "small-buffer-not-rejected", fmt("len=%d frame=%d ret=%ld", len, frame, r.ret));
      // (at half rate the call may have stepped into the next link first, which re-synchronises a position that ran ahead of an odd-length link)
      check(r.t1 == r.t0 || (hs && r.t1 < r.t0 && r.t0 - r.t1 <= odd_links()), {"C17"}, site, "position-moved-on-error", fmt("%lld->%lld", (long long)r.t0, (long long)r.t1));
      for (size_t i = 0; i < r.buf.size(); i++) check(r.buf[i] == (uint8_t)(0xC5 ^ (i * 7)), {"C17"}, site, "buffer-written-on-error", fmt("byte %zu", i));
      g_stats.inc("probe.ov_read_small_buffer");
      return;
    }
    check(r.ret > 0, P(), site, "no-data", fmt("ret=%ld at tell=%lld (link %d off %lld)", r.ret, (long long)r.t0, link, (long long)off), {{"ret", std::to_string(r.ret)}});
    if (r.ret <= 0) { if (r.ret == OV_HOLE) H.hole_seen = true; return; }
    check(r.ret % frame == 0 && r.ret <= len, {"C17"}, site, "not-whole-frames", fmt("ret=%ld frame=%d len=%d", r.ret, frame, len));
    int frames = (int)(r.ret / frame);
    check(frames <= avail, P(), site, "read-spans-link-end", fmt("frames=%d avail=%lld", frames, (long long)avail));
    if (frames > avail) return;
    if (!skip_content) {
      auto &ref = refpcm(link, hr); std::vector<const float *> ch(nch); for (int c = 0; c < nch; c++) ch[c] = ref[c].data();
      std::vector<uint8_t> lo, hi; expected_int(ch.data(), nch, off, frames, word, sg, be, lo, hi, filter_gain(op));
      for (size_t i = 0; i < lo.size(); i++) if (r.buf[i] != lo[i] && r.buf[i] != hi[i]) {
        if (std::isnan(ch[(i / (size_t)word) % (size_t)nch][off + (int64_t)(i / (size_t)(word * nch))])) continue;   // crafted streams can decode to NaN (0 * inf in a floor-0 curve)
        // a tie affects both bytes of a 16-bit word; re-check word-wise
        size_t w0 = word == 2 ? (i & ~(size_t)1) : i; bool okw = false;
        if (word == 2) okw = (r.buf[w0] == lo[w0] && r.buf[w0 + 1] == lo[w0 + 1]) || (r.buf[w0] == hi[w0] && r.buf[w0 + 1] == hi[w0 + 1]);
        if (!okw) { check(false, {"C17", "C07", "C20", "C10"}, site, "bytes-differ-from-float", fmt("byte %zu got %02x want %02x/%02x (word=%d sgned=%d be=%d ch=%d link=%d off=%lld)", i, r.buf[i], lo[i], hi[i], word, sg, be, nch, link, (long long)off), {{"word", std::to_string(word)}, {"sgned", std::to_string(sg)}, {"be", std::to_string(be)}}); break; }
      }
    }
    for (size_t i = (size_t)r.ret; i < r.buf.size(); i++) check(r.buf[i] == (uint8_t)(0xC5 ^ (i * 7)), {"C17"}, site, "wrote-past-return", fmt("byte %zu ret=%ld", i, r.ret));
    check(r.section == link, P(), site, "wrong-section", fmt("section=%d model=%d", r.section, link));
    check((r.t1 <= r.t0 + ((int64_t)frames << hs) && r.t1 >= r.t0 + ((int64_t)frames << hs) - (hs ? odd_links() : 0)) || !H.seekable, P(), site, "tell-advance", fmt("%lld->%lld frames=%d hs=%d", (long long)r.t0, (long long)r.t1, frames, hs));
    if (!H.seekable) H.lin_off += frames;
    g_stats.inc("probe.ov_read_compared"); compared_after_seek |= H.just_sought; H.reads_since_seek++;
    return;
  }
  check(r.ret > 0, P(), site, "no-data", fmt("ret=%ld at tell=%lld (link %d off %lld of %lld)", r.ret, (long long)r.t0, link, (long long)off, (long long)reflen(link, hr)), {{"ret", std::to_string(r.ret)}});
  if (r.ret <= 0) { if (r.ret == OV_HOLE) H.hole_seen = true; return; }
  check(r.ret <= len, P(), site, "more-than-requested", fmt("ret=%ld len=%d", r.ret, len));
  check(r.ret <= avail, P(), site, "read-spans-link-end", fmt("ret=%ld avail=%lld link=%d", r.ret, (long long)avail, link));
  check(r.nch == nch, P(), site, "wrong-channel-count", fmt("got %d want %d", r.nch, nch));
  if (r.ret > avail || r.nch != nch) return;
  if (!skip_content) {
    auto &ref = refpcm(link, hr);
    for (int c = 0; c < nch; c++) if (memcmp(r.pcm[c].data(), ref[c].data() + off, (size_t)r.ret * sizeof(float))) {
      int64_t first = 0; while (first < r.ret && !memcmp(&r.pcm[c][first], &ref[c][off + first], 4)) first++;
      check(false, P(), site, "samples-differ-from-reference", fmt("link=%d ch=%d first diff at +%lld of %ld (tell=%lld off=%lld hr=%d) got %g want %g", link, c, (long long)first, r.ret, (long long)r.t0, (long long)off, hr, r.pcm[c][first], ref[c][off + first]),
            {{"hr", std::to_string(hr)}, {"link_gt0", link > 0 ? "1" : "0"}});
      break;
    }
  }
  check(r.section == link, P(), site, "wrong-section", fmt("section=%d model=%d", r.section, link));
  if (H.seekable) check(r.t1 <= r.t0 + ((int64_t)r.ret << hs) && r.t1 >= r.t0 + ((int64_t)r.ret << hs) - (hs ? odd_links() : 0), P(), site, "tell-advance", fmt("%lld->%lld ret=%ld hs=%d", (long long)r.t0, (long long)r.t1, r.ret, hs));
  else {
    // streaming handles report a position too (within the link being played): inside a plain encoder-made link it advances by exactly what was returned
    // (two per sample at half rate), and in the first link it is the number of samples delivered so far
    const Recipe &lrp = sr.ps.links[(size_t)link]->r;
    // (first link only: in a later link of a streaming chain the position first runs on from the previous link and is re-anchored at the link's first page end)
    if (!H.io_dirty && !sr.hole && link == 0 && off > 0 && !lrp.trim && !lrp.cut && !lrp.bs64 && !lrp.craft) {
      check(r.t1 - r.t0 == ((int64_t)r.ret << hs), P(), site, "tell-advance", fmt("streaming: %lld->%lld ret=%ld hs=%d", (long long)r.t0, (long long)r.t1, r.ret, hs), {{"streaming", "1"}});
      check(r.t0 == (off << hs), P(), site, "streaming-position", fmt("tell=%lld after %lld samples of the first link (hs=%d)", (long long)r.t0, (long long)off, hs));
      g_stats.inc("probe.streaming_position_checked");
    }
    H.lin_off += r.ret;
  }
  g_stats.inc("probe.read_float_compared"); compared_after_seek |= H.just_sought; H.reads_since_seek++;
  if (link > 0) g_stats.inc("probe.read_in_later_link");
}

void VfRun::oracle_open(Handle &H, long ret) {
  // hole mode's premise is a handle that sees the stream as it is apart from the one page: a seekable open measures the links from the pages it
  // finds, and a damaged page near the end of a short link can make it measure something else; then only the safety oracle applies
  if (sr.hole && ret == 0 && H.seekable && (ov_streams(H.vf) != sr.nlinks || ov_pcm_total(H.vf, -1) != sr.total)) { sr.hole = false; g_stats.inc("probe.hole_open_measured_other_totals"); }
  if (sr.hole && ret != 0) sr.hole = false;
  if (inexact() || H.io_dirty) {
    check(ret == 0 || documented_code(ret), {"C03", "C12"}, "open", "undocumented-return", fmt("ret=%ld", ret));
    if (ret != 0) {
      bool zero = true; for (size_t i = 0; i < sizeof(OggVorbis_File); i++) if (H.mem[i]) { zero = false; break; }
      check(zero, {"C03", "C12", "C13"}, "open", "failed-open-handle-not-cleared", "OggVorbis_File not all-zero after failed open");
      check(H.sf.n_close == 0, {"C03", "C12", "C13"}, "open", "failed-open-closed-source", fmt("close called %llu times", (unsigned long long)H.sf.n_close));
    }
    return;
  }
  check(ret == 0, {"C07", "C08", "C09", "C10", "C12", "C17", "C19", "C20"}, "open", "intact-open-failed", fmt("ret=%ld", ret), {{"ret", std::to_string(ret)}});
  if (ret != 0 || H.part) return;
  if (!H.seekable) { check(ov_seekable(H.vf) == 0, {"C10"}, "open", "seekable-flag", ""); return; }
  link_table(H, "open");
  check(ov_pcm_tell(H.vf) == 0, {"C09", "C07", "C10"}, "open", "tell-not-zero-after-open", fmt("tell=%lld", (long long)ov_pcm_tell(H.vf)));
}

// C09: the link table (count, and per link: channels, rate, serial number, length, comments, duration; the totals). Asked right after the open, and
// again whenever a linear read enters another link and at every "info" op: what is reported for link i does not depend on where the decoder is.
void VfRun::link_table(Handle &H, const char *site, std::initializer_list<const char *> P, bool force) {
  if (inexact() || (H.io_dirty && !force) || H.part || !H.open || !H.seekable) return;
  g_stats.inc(std::string("probe.link_table_checked_at_") + site);
  if (sr.nlinks >= 8) g_stats.inc("probe.link_table_checked_on_a_chain_of_8_or_more_links");
  long k = ov_streams(H.vf);
  check(k == sr.nlinks, P, "open", "link-count", fmt("ov_streams=%ld want %d", k, sr.nlinks), {{"got", std::to_string(k)}, {"want", std::to_string(sr.nlinks)}});
  if (k != sr.nlinks) return;
  for (int i = 0; i < sr.nlinks; i++) {
    Link &l = *sr.ps.links[i]; vorbis_info *vi = ov_info(H.vf, i); vorbis_comment *vc = ov_comment(H.vf, i);
    check(vi && vi->channels == l.r.ch && vi->rate == l.r.rate, P, "open", "link-info", fmt("link %d ch/rate", i));
    check(ov_serialnumber(H.vf, i) == sr.ps.serials[i], P, "open", "link-serial", fmt("link %d serial %ld want %ld", i, ov_serialnumber(H.vf, i), sr.ps.serials[i]));
    check(ov_pcm_total(H.vf, i) == l.len, P, "open", "link-length", fmt("link %d ov_pcm_total=%lld want %lld", i, (long long)ov_pcm_total(H.vf, i), (long long)l.len), {{"link", std::to_string(i)}});
    bool cok = vc && vc->comments == (int)l.comments.size() && vc->vendor && l.vendor == vc->vendor;
    if (cok) for (int c = 0; c < vc->comments; c++) if (vc->comment_lengths[c] != (int)l.comments[c].size() || memcmp(vc->user_comments[c], l.comments[c].data(), l.comments[c].size())) cok = false;
    check(cok, P, "open", "link-comments", fmt("link %d", i));
    double tt = ov_time_total(H.vf, i); check(fabs(tt - (double)l.len / l.r.rate) <= 1e-9 * (1 + tt), P, "open", "link-time-total", fmt("link %d %g", i, tt));
  }
  check(ov_pcm_total(H.vf, -1) == sr.total, P, "open", "total-length", fmt("%lld want %lld", (long long)ov_pcm_total(H.vf, -1), (long long)sr.total));
  check(ov_raw_total(H.vf, -1) <= (int64_t)sr.bytes.size() && ov_raw_total(H.vf, -1) > 0, P, "open", "raw-total", "");
}

// is the target of a seek op in range, and where should it land?
bool VfRun::in_range(const std::string &kind, const Rec &op, int64_t &tp, double &texact) {
  if (kind == "raw_seek") { int64_t p = op.i("a"); tp = -1; return p >= 0 && p <= (int64_t)sr.bytes.size(); }
  if (kind == "pcm_seek" || kind == "pcm_seek_page") { tp = op.i("a"); texact = (double)tp; return tp >= 0 && tp <= sr.total; }
  double t = op.f("t"); if (t < 0) return false;
  double tt = 0; int64_t pt = 0;
  for (int i = 0; i < sr.nlinks; i++) {
    double add = (double)sr.ps.links[i]->len / sr.ps.links[i]->r.rate;
    if (t < tt + add) { texact = pt + (t - tt) * sr.ps.links[i]->r.rate; tp = (int64_t)texact; return true; }
    tt += add; pt += sr.ps.links[i]->len;
  }
  return false;
}

// C12, first clause, for seeks: a seek during which a callback failed "returns an error code or end-of-file" -- or it coped (short reads,
// a retried probe) and then it has done what a seek does. What it may not do is report success from somewhere else. Only judged for the
// first failure on a cleanly opened, intact, full-rate handle, where the model's positions are exact.
void VfRun::oracle_seek_faulted(Handle &H, const Rec &op, const std::string &kind, const std::string &site, long ret, int64_t t1, bool was_dirty) {
  if (ret != 0 || was_dirty || faulted_open || inexact() || sr.damaged || H.part || H.hr || H.hr_touched || !H.seekable || kind == "raw_seek") return;
  int64_t tp = -1; double tex = 0; if (!in_range(kind, op, tp, tex)) return;
  // a premature zero read is indistinguishable from the real end of the data: the seek settles for "end of stream" and whatever is primed or
  // read next finds data again and resynchronises -- the application healed the source, not the library; nothing exact to demand
  // a premature zero read is indistinguishable from the real end of the data; when the source then has data again after all (the application
  // healed it, not the library) the decode picks up wherever that leaves it. Nothing exact to demand.
  bool read_fault = false; for (auto &f : parse_faults(op)) { if (f.kind == IOF_EOF0) return; if (f.kind == IOF_EIO) read_fault = true; }
  bool ok = t1 == sr.total;   // end-of-file
  if (read_fault && (kind == "pcm_seek" || kind == "time_seek")) {
    // while samples are being discarded up to the target a failed read looks like the end of the data (_fetch_and_process_packet reports
    // OV_EOF for it, by design: ov_read turns read errors into end-of-file too); the seek settles for "end of stream", and a lapped seek's
    // priming then finds data again and resynchronises to where the decoder really is: between the page the search landed on and the target.
    int64_t w = 0; std::vector<int64_t> last((size_t)sr.nlinks, 0);
    for (auto &pg : sr.ps.pages) if (pg.link >= 0 && pg.link < sr.nlinks && pg.granule >= 0 && !pg.header) { w = std::max(w, pg.granule - last[(size_t)pg.link]); last[(size_t)pg.link] = pg.granule; }
    ok = ok || (t1 <= tp + 1 && t1 >= tp - w - 2 * 8192);
  }
  if (kind == "pcm_seek") ok = ok || t1 == tp; else if (kind == "time_seek") ok = ok || (t1 >= tp - 1 && t1 <= tp + 1); else ok = ok || (t1 >= 0 && t1 <= tp + (kind == "time_seek_page" ? 1 : 0));
  g_stats.inc("probe.faulted_seek_reported_success");
  // ... and when it claims the exact target after a one-shot failure (the library retried or did not need the lost read), the handle is as good
  // as any other after a successful seek: the reads that follow are judged exactly, not under the relaxed rules of a failed call
  if (ok && t1 == tp && t1 != sr.total && site == kind && (kind == "pcm_seek" || kind == "time_seek") && H.sf.active_kind == IOF_NONE && H.sf.faults_pending() == 0) { H.io_dirty = false; H.just_sought = true; H.reads_since_seek = 0; g_stats.inc("probe.faulted_seek_success_held_to_read_oracle"); }
  check(ok, {"C12"}, site, "faulted-seek-reports-success-elsewhere", fmt("ret=0 tell=%lld target=%lld total=%lld", (long long)t1, (long long)tp, (long long)sr.total), {{"kind", kind}});
}

long VfRun::do_seek_call(Handle &H, const std::string &kind, const Rec &op, bool lap) {
  int64_t a = op.i("a"); double t = op.f("t");
  if (kind == "raw_seek") return lap ? api("ov_raw_seek_lap", [&] { return ov_raw_seek_lap(H.vf, a); }) : api("ov_raw_seek", [&] { return ov_raw_seek(H.vf, a); });
  if (kind == "pcm_seek") return lap ? api("ov_pcm_seek_lap", [&] { return ov_pcm_seek_lap(H.vf, a); }) : api("ov_pcm_seek", [&] { return ov_pcm_seek(H.vf, a); });
  if (kind == "pcm_seek_page") return lap ? api("ov_pcm_seek_page_lap", [&] { return ov_pcm_seek_page_lap(H.vf, a); }) : api("ov_pcm_seek_page", [&] { return ov_pcm_seek_page(H.vf, a); });
  if (kind == "time_seek") return lap ? api("ov_time_seek_lap", [&] { return ov_time_seek_lap(H.vf, t); }) : api("ov_time_seek", [&] { return ov_time_seek(H.vf, t); });
  return lap ? api("ov_time_seek_page_lap", [&] { return ov_time_seek_page_lap(H.vf, t); }) : api("ov_time_seek_page", [&] { return ov_time_seek_page(H.vf, t); });
}

void VfRun::oracle_seek(Handle &H, const Rec &op, const std::string &kind, long ret, int64_t t0, int64_t t1, bool lap) {
  const char *site = kind.c_str();
  if (!H.seekable) { check(ret == OV_ENOSEEK || (H.part && ret == OV_EINVAL), {"C10", "C03"}, site, "streaming-seek-not-refused", fmt("ret=%ld", ret)); return; }
  if (inexact() || H.io_dirty) { check(ret == 0 || documented_code(ret), {"C03", "C12"}, site, "undocumented-return", fmt("ret=%ld", ret)); return; }
  int64_t tp = -1; double tex = 0; bool inr = in_range(kind, op, tp, tex);
  std::map<std::string, std::string> facts = {{"hr", std::to_string(H.hr)}, {"lap", lap ? "1" : "0"}};
  if (!inr) {
    bool at_end = (kind == "time_seek" || kind == "time_seek_page") && op.f("t") >= 0 && fabs(op.f("t") - [&] { double tt = 0; for (int i = 0; i < sr.nlinks; i++) tt += (double)sr.ps.links[i]->len / sr.ps.links[i]->r.rate; return tt; }()) < 1e-12;
    if (at_end && ret == 0) { g_stats.inc("c08.time_seek_at_duration_accepted"); return; }
    if (lap) return;   // C19: compared against the plain twin instead
    check(ret == OV_EINVAL, {"C08"}, site, "out-of-range-not-rejected", fmt("ret=%ld", ret), facts);
    check(t1 == t0, {"C08"}, site, "rejected-seek-moved-position", fmt("%lld->%lld", (long long)t0, (long long)t1), facts);
    g_stats.inc("probe.out_of_range_seek");
    return;
  }
  if (lap) return;
  std::initializer_list<const char *> P8 = {"C08", "C12"}, P20 = {"C20"};
  auto P = H.hr_touched ? P20 : P8;
  int tl = tp >= 0 ? sr.link_of(std::min(tp, std::max<int64_t>(0, sr.total - 1))) : 0;
  facts["target_link_gt0"] = tl > 0 ? "1" : "0";
  if (tl > 0) facts["bs1_link0_lt_target"] = sr.ps.links[0]->bs1 < sr.ps.links[tl]->bs1 ? "1" : "0";
  check(ret == 0, P, site, "in-range-seek-failed", fmt("ret=%ld target=%lld total=%lld", ret, (long long)tp, (long long)sr.total), [&] { auto f = facts; f["ret"] = std::to_string(ret); return f; }());
  if (ret != 0) return;
  check(t1 >= 0 && t1 <= sr.total, {"C07", "C08", "C12", "C20"}, site, "tell-invalid-after-seek", fmt("tell=%lld", (long long)t1), facts);
  int hs = H.hr ? 1 : 0;
  if (kind == "pcm_seek") {
    if (!hs) check(t1 == tp, P, site, "not-exact", fmt("tell=%lld target=%lld", (long long)t1, (long long)tp), [&] { auto f = facts; f["dir"] = t1 > tp ? "after" : "before"; return f; }());
    else {
      int l = sr.link_of(std::min(tp, std::max<int64_t>(0, sr.total - 1))); int64_t ls = sr.start[l];
      int64_t e1 = ls + (((tp - ls) >> 1) << 1), e2 = (tp >> 1) << 1;
      check(t1 == e1 || t1 == e2 || (tp == sr.total && t1 == tp), P, site, "halfrate-landing", fmt("tell=%lld target=%lld link-even=%lld global-even=%lld", (long long)t1, (long long)tp, (long long)e1, (long long)e2), facts);
    }
  } else if (kind == "time_seek") {
    if (!hs) check(fabs((double)t1 - tex) <= 1.0 + 1e-6, P, site, "not-within-one-sample", fmt("tell=%lld exact=%.3f", (long long)t1, tex), facts);
    else check((double)t1 <= tex + 1.0 && (double)t1 >= tex - 3.0, P, site, "halfrate-landing", fmt("tell=%lld exact=%.3f", (long long)t1, tex), facts);
  } else if (kind == "pcm_seek_page" || kind == "time_seek_page") {
    int64_t hi = kind == "pcm_seek_page" ? tp : (int64_t)ceil(tex) + 1, lo_t = kind == "pcm_seek_page" ? tp : (int64_t)floor(tex) - 1;
    check(t1 <= hi, {"C08"}, site, "landed-after-target", fmt("tell=%lld target=%lld", (long long)t1, (long long)hi), facts);
    int64_t bound = 0; for (auto b : sr.boundaries) if (b < lo_t) bound = b; else break;
    // fact for triage: does the page that defines the bound hold nothing but the tail of a packet begun on an earlier page?
    { // K1 fact: is the page the library bisects to (the last one whose granule position is below its target; for time seeks the target is
      // only known to within a sample) one that completes nothing but the tail of a packet begun on an earlier page?
      bool k1 = false;
      for (int64_t th : {lo_t, tp, hi, hi + 1}) { const PageInfo *best = nullptr; int64_t bg = -1;
        for (auto &pg : sr.ps.pages) if (pg.link >= 0 && !pg.header && pg.granule >= 0) { int64_t g = sr.start[pg.link] + std::max<int64_t>(0, std::min<int64_t>(pg.granule - sr.goff[pg.link], sr.ps.links[pg.link]->len)); if (g < th && g >= bg) { bg = g; best = &pg; } }
        if (best && best->cont && best->completed == 1) k1 = true; }
      facts["best_page_only_continuation"] = k1 ? "1" : "0"; }
    check(t1 >= bound, {"C08"}, site, "landed-before-previous-page-boundary", fmt("tell=%lld bound=%lld target=%lld", (long long)t1, (long long)bound, (long long)tp), facts);
  }
  if (kind == "pcm_seek" && tp == sr.total) g_stats.inc("probe.seek_to_total");
}

void VfRun::halfrate_op(Handle &H, const Rec &op) {
  int flag = (int)op.i("flag", 1); int64_t t0 = ov_pcm_tell(H.vf);
  long ret = api("ov_halfrate", [&] { return (long)ov_halfrate(H.vf, flag); });
  int64_t t1 = ov_pcm_tell(H.vf); int p = ov_halfrate_p(H.vf);
  h.i64(ret); h.i64(t1); h.i64(p);
  H.hr_touched = true;
  H.obs.i64(t1); H.obs.i64(p);
  if (sr.damaged || H.io_dirty) { check(ret == 0 || documented_code(ret), {"C03", "C12"}, "ov_halfrate", "undocumented-return", fmt("ret=%ld", ret)); H.hr = p > 0; return; }
  std::initializer_list<const char *> P = {"C20"};
  if (sr.has_bs64 && H.seekable) {
    // refusal clause, decided by a twin: the refused call must leave the handle exactly as a no-op toggle (ov_halfrate(vf,0) on a
    // full-rate handle: dump the decoder, re-seek to the same position) leaves its twin; the caller compares the observation hashes
    if (flag) { check(ret != 0, P, "ov_halfrate", "not-refused-with-64-sample-blocks", fmt("ret=%ld", ret)); g_stats.inc("probe.halfrate_refused"); }
    else check(ret == 0, P, "ov_halfrate", "toggle-failed", fmt("flag=0 ret=%ld", ret));
    check(p == 0, P, "ov_halfrate", "flag-set-after-refusal", fmt("halfrate_p=%d", p));
    // on a stream whose positions are exact (genuine 64-sample blocks, not a rewritten header) the clause is also checked directly:
    // "leaving full-rate decoding intact at the same position" -- the position here, the audio by the reads that follow
    if (!inexact() && !H.io_dirty && t0 >= 0 && t0 <= sr.total) { check(t1 == t0, P, "ov_halfrate", flag ? "refusal-moved-position" : "toggle-moved-position", fmt("%lld->%lld flag=%d", (long long)t0, (long long)t1, flag)); g_stats.inc("probe.halfrate_refusal_position_exact"); }
    H.hr = 0; return;
  }
  // a streaming handle only knows the link it is in
  bool must_refuse = H.seekable ? sr.has_bs64 : (H.lin_link < sr.nlinks && sr.ps.links[std::min(H.lin_link, sr.nlinks - 1)]->bs0 <= 64);
  if (flag && must_refuse) {
    check(ret != 0, P, "ov_halfrate", "not-refused-with-64-sample-blocks", fmt("ret=%ld", ret));
    check(p == 0, P, "ov_halfrate", "flag-set-after-refusal", fmt("halfrate_p=%d", p));
    if (H.seekable) check(t1 == t0, P, "ov_halfrate", "refusal-moved-position", fmt("%lld->%lld", (long long)t0, (long long)t1));
    H.hr = 0; g_stats.inc("probe.halfrate_refused"); return;
  }
  if (sr.has_bs64 && !H.seekable) { H.hr = p > 0; H.io_dirty = true; return; }   // streaming handle in an ordinary link of a chain that has a 64-sample link further on: it cannot know; nothing exact to say from here
  check(ret == 0, P, "ov_halfrate", "toggle-failed", fmt("flag=%d ret=%ld", flag, ret));
  check((p != 0) == (flag != 0), P, "ov_halfrate", "flag-mismatch", fmt("flag=%d p=%d", flag, p));
  if (H.seekable && ret == 0) {
    // the toggle re-seeks to the current position, clamped to the total (past an odd end the half-rate position is total+1); at half
    // rate that seek lands on the even position at or below it (relative to the link start, or globally - both accepted, see DESIGN)
    int64_t tq = std::min(t0, sr.total);
    int64_t exp_even = (tq >> 1) << 1; int l = sr.link_of(std::min(tq, std::max<int64_t>(0, sr.total - 1))); int64_t e1 = sr.start[l] + (((tq - sr.start[l]) >> 1) << 1);
    check(t1 == t0 || t1 == tq || (flag && (t1 == exp_even || t1 == e1)), P, "ov_halfrate", "toggle-moved-position", fmt("%lld->%lld flag=%d", (long long)t0, (long long)t1, flag));
  }
  H.hr = flag ? 1 : 0; g_stats.inc(flag ? "probe.halfrate_on" : "probe.halfrate_off");
}

void VfRun::finish(Handle &H, bool twice) {
  if (!H.alloc) return;
  uint64_t c0 = H.sf.n_close;
  api("ov_clear", [&] { return ov_clear(H.vf); });
  uint64_t closes = H.sf.n_close - c0;
  bool should_close = (H.open || H.part) && H.expect_close;
  check(closes == (should_close ? 1u : 0u), {"C13", "C03", "C12"}, "ov_clear", "close-count", fmt("close callback ran %llu times at ov_clear, expected %d (open=%d part=%d)", (unsigned long long)closes, should_close ? 1 : 0, H.open, H.part), {{"got", std::to_string(closes)}});
  bool zero = true; for (size_t i = 0; i < sizeof(OggVorbis_File); i++) if (H.mem[i]) zero = false;
  check(zero, {"C13", "C03"}, "ov_clear", "handle-not-zeroed", "");
  if (twice) { uint64_t c1 = H.sf.n_close; api("ov_clear", [&] { return ov_clear(H.vf); }); check(H.sf.n_close == c1, {"C13"}, "ov_clear", "second-clear-closed-again", ""); g_stats.inc("probe.clear_twice"); }
  check(H.sf.n_after_close == 0, {"C13", "C03", "C12"}, "ov_clear", "callback-after-close", fmt("%llu callbacks after close", (unsigned long long)H.sf.n_after_close));
  H.open = H.part = false;
  if (H.fp) { /* FILE closed by ov_clear through the cookie when open succeeded; otherwise caller's */ if (!H.sf.closed) fclose(H.fp); H.fp = nullptr; }
}

}  // namespace
#include "vfsim_run.inc"
