// vfgen.cpp — seeded generation of vfsim plans per property, and plan simplification for shrinking.
#include "vfsim.hpp"

namespace {
struct Gen {
  Prng g; const GenCfg &c; Plan p; StreamRef sr; bool thorough; std::string prop;
  std::vector<int64_t> pktb;   // global packet-boundary positions
  Gen(const GenCfg &cfg) : g(cfg.seed), c(cfg), thorough(cfg.tier == "thorough"), prop(cfg.prop) {}

  int64_t pick_pos() {
    double u = g.unit(); int64_t L = sr.total;
    if (L <= 0) return 0;
    if (u < 0.30) return g.range(0, L);
    if (u < 0.55 && !sr.boundaries.empty()) return std::max<int64_t>(0, std::min(L, g.pick(sr.boundaries) + g.range(-2, 2)));
    if (u < 0.72 && !pktb.empty()) return std::max<int64_t>(0, std::min(L, g.pick(pktb) + g.range(-1, 1)));
    if (u < 0.80) { static const int64_t e[] = {0, 1, 2}; int64_t v = e[g.below(3)]; return g.chance(0.5) ? std::min(L, v) : std::max<int64_t>(0, L - v); }
    if (u < 0.90 && sr.nlinks > 1) { int l = (int)g.below(sr.nlinks); return std::max<int64_t>(0, std::min(L, sr.start[l] + g.range(-3, 3))); }
    return g.range(0, L);
  }
  int64_t pick_raw() {
    int64_t S = (int64_t)sr.bytes.size(); double u = g.unit();
    if (u < 0.05) return 0;
    if (u < 0.35) return g.range(0, S);
    if (u < 0.70 && !sr.ps.pages.empty()) { auto &pg = g.pick(sr.ps.pages); return std::max<int64_t>(0, std::min(S, pg.off + g.range(-2, 30))); }
    if (u < 0.80 && !sr.ps.pages.empty()) { auto &pg = sr.ps.pages.back(); return std::max<int64_t>(0, std::min(S, pg.off + g.range(-1, pg.len))); }
    if (u < 0.90) { int l = (int)g.below(sr.nlinks + 1); return std::max<int64_t>(0, std::min(S, sr.ps.link_off[l] + g.range(-40, 40))); }
    return g.chance(0.6) ? 0 : S;
  }
  double time_of(int64_t pos, double frac) {
    int l = sr.link_of(std::min(pos, std::max<int64_t>(0, sr.total - 1))); double t = 0;
    for (int i = 0; i < l; i++) t += (double)sr.ps.links[i]->len / sr.ps.links[i]->r.rate;
    return t + ((double)(pos - sr.start[l]) + frac) / sr.ps.links[l]->r.rate;
  }
  Rec &op(const std::string &k) { Rec &r = p.add("op"); r.set("kind", k); return r; }
  void seek_op(const std::string &suffix = "", bool allow_oor = true, double oor_p = 0.1) {
    static const char *kinds[] = {"pcm_seek", "pcm_seek", "pcm_seek_page", "raw_seek", "time_seek", "time_seek_page"};
    std::string k = kinds[g.below(6)];
    Rec &r = op(k + suffix);
    bool oor = allow_oor && g.chance(oor_p);
    if (k == "raw_seek") { r.set("a", oor ? (g.chance(0.5) ? -1 - (int64_t)g.below(100) : (int64_t)sr.bytes.size() + 1 + (int64_t)g.below(100)) : pick_raw()); }
    else if (k == "pcm_seek" || k == "pcm_seek_page") { r.set("a", oor ? (g.chance(0.5) ? -1 - (int64_t)g.below(5) : sr.total + 1 + (int64_t)g.below(5)) : pick_pos()); }
    else {
      if (oor) r.setf("t", g.chance(0.5) ? -0.001 - g.unit() : time_of(sr.total, 0) + 0.001 + g.unit());
      else { int64_t pos = pick_pos(); if (pos >= sr.total) pos = std::max<int64_t>(0, sr.total - 1); r.setf("t", time_of(pos, g.chance(0.5) ? 0.0 : g.unit() * 0.999)); }
    }
    if (!oor && g.chance(0.05)) r.set("attell", 1);   // seek to where the handle says it is (resolved when the op is executed)
  }
  void read_op(double p_int = 0.25, int maxrep = 4) {
    if (g.chance(p_int)) {
      Rec &r = op(g.chance(0.2) ? "read_filter" : "read_int"); int word = g.chance(0.5) ? 2 : 1; if (g.chance(0.04)) word = g.chance(0.5) ? 0 : -1;
      if (r.s("kind") == "read_filter" && g.chance(0.5)) { static const double gains[] = {4.0, 1048576.0, -2.0, 65536.0, 0.25}; r.setf("gain", gains[g.below(5)]); }
      r.set("word", word).set("sgned", (int64_t)g.below(2)).set("be", (int64_t)g.below(2));
      double u = g.unit(); int nch = sr.ps.links[0]->r.ch; int frame = std::max(1, word) * nch;
      int len = u < 0.15 ? (int)g.below((uint64_t)frame) : u < 0.25 ? frame : u < 0.33 ? frame + 1 : u < 0.6 ? (int)g.range(1, 600) : (int)g.range(600, 8192);
      if (g.chance(0.05)) { static const int64_t nl[] = {-1, -2, -4, -64, -4096, -2147483647LL - 1}; int64_t v = g.chance(0.4) ? -(int64_t)frame * (int64_t)g.range(1, 40) : nl[g.below(6)]; len = (int)v; r.set("neglen", 1); }   // "a buffer too small for one frame": a negative length is that too
      r.set("len", len).set("rep", (int64_t)g.range(1, maxrep));
    } else {
      Rec &r = op("read_float"); double u = g.unit();
      r.set("len", u < 0.2 ? (int64_t)g.range(1, 8) : u < 0.5 ? (int64_t)g.range(8, 700) : (int64_t)g.range(700, 8192)).set("rep", (int64_t)g.range(1, maxrep));
    }
  }
  void linear_read(bool mixed_int) {
    Rec &r = op(mixed_int && g.chance(0.3) ? (g.chance(0.35) ? "read_filter" : "read_int") : "read_float");
    if (r.s("kind") != "read_float") r.set("word", g.chance(0.5) ? 2 : 1).set("sgned", (int64_t)g.below(2)).set("be", (int64_t)g.below(2));
    if (g.chance(0.5)) r.set("len", -1).setu("lenseed", g.next() % 100000); else r.set("len", g.chance(0.5) ? 4096 : (int64_t)g.range(1, 8192));
    r.set("rep", 0);
  }

  void choose_stream(int maxlinks, bool many_ch, double p_bs64 = 0) {
    uint64_t pool = thorough ? 400 : 60;
    double u = g.unit(); int nl = u < 0.45 ? 1 : u < 0.75 ? 2 : u < 0.9 ? 3 : (int)g.range(4, 5);
    nl = std::min(nl, maxlinks);
    int64_t budget = thorough ? 260000 : 140000;   // total sample*channel budget per stream keeps runs short
    std::vector<long> used;
    // "many links": 8..40 very short links (drawn from three recipes, so that only three encodes are needed) -- the link tables are grown many
    // times, the chained open recurses once per link, several links share one chunk of the backward scans, most seeks cross links
    std::vector<Recipe> tiny;
    if (maxlinks >= 5 && (prop == "C03" || prop == "C07" || prop == "C08" || prop == "C09" || prop == "C10" || prop == "C13") && g.chance(0.02)) {
      nl = (int)g.range(8, thorough ? 40 : 20); p.recs[0].set("manylinks", nl);
      for (int j = 0; j < 3; j++) { Recipe z = pool_recipe(c.master, g.below(pool), false); z.ch = std::min(z.ch, 2); z.mute = 0; z.cut = z.trim = z.bs64 = 0; z.n = g.chance(0.3) ? (int64_t)g.below(4) : g.range(1, 2500); tiny.push_back(z); }
    }
    for (int i = 0; i < nl; i++) {
      Recipe r; int tries = 0; std::shared_ptr<Link> l;
      if (!tiny.empty()) {
        r = tiny[g.below(tiny.size())]; l = get_link(r); if (!l->ok || l->ref_err) continue;
        Rec &lr = p.add("link"); r.to(lr); int pol = (int)g.below(5); long serial; do { serial = (long)g.below(1 << 30); } while (std::find(used.begin(), used.end(), serial) != used.end()); used.push_back(serial);
        lr.set("pol", pol).set("k", pol == 1 ? (int)g.range(1, 12) : pol == 4 ? (int)g.range(1, 6) : 4).set("serial", serial);
        continue;
      }
      do { r = pool_recipe(c.master, g.below(pool), many_ch); if (r.trim && (prop == "C20" || prop == "C19" || prop == "C03" || prop == "C13" || prop == "C12" || prop == "C17" || prop == "C07")) r.trim += r.trim & 1; /* half rate is toggled in these histories: keep the cut on the even grid */ if (p_bs64 > 0 && g.chance(p_bs64)) { r.bs64 = 1; r.cut = 0; r.trim = 0; r.sig = g.chance(0.75) ? 6 : 1; r.n = std::max<int64_t>(r.n, 3000); } l = get_link(r); } while ((!l->ok || l->ref_err || r.n * r.ch > budget) && ++tries < 20);
      if (prop == "C17" && g.chance(0.03)) { Recipe z; z.ch = g.chance(0.7) ? 255 : 254; z.rate = 8000; z.q = 0.4; z.n = 1200 + 600 * (int64_t)g.below(3); z.sig = 2; z.seed = 7; z.ncomm = 1; auto lz = get_link(z); if (lz->ok && !lz->ref_err) { r = z; l = lz; } }   // the format's maximum channel count (the quick tier's recipe pool is too small to be sure of containing it)
      if (prop != "C04" && g.chance(prop == "C20" ? 0.14 : 0.07)) {   // a hand-built link (craft.cpp): block-size and mode patterns the encoder never produces, genuine 64-sample short blocks; noise audio with samples far outside +-1 (NaN samples are skipped by the integer oracle)
        static const long rates[] = {8000, 22050, 44100, 48000}; Recipe z; z.craft = 1; z.ch = (int)g.range(1, 3); z.rate = rates[g.below(4)]; z.seed = g.below(thorough ? 600 : 60); z.n = (int64_t)(20 + 30 * g.below(6)); z.ncomm = 1;
        auto lz = get_link(z); if (lz->ok && !lz->ref_err && lz->len > 0) { r = z; l = lz; } }
      if ((prop == "C07" || prop == "C08" || prop == "C12" || prop == "C19" || prop == "C20" || prop == "C10") && g.chance(0.04)) {   // a page that spans more than a second of audio (long digital silence between two tones)
        Recipe z; z.ch = 1; z.rate = g.chance(0.7) ? 44100 : 22050; z.q = 0.1 + 0.1 * (double)g.below(4); z.n = 90000 + 10000 * (int64_t)g.below(4); z.sig = 6; z.seed = g.below(thorough ? 50 : 6); z.ncomm = 1;
        auto lz = get_link(z); if (lz->ok && !lz->ref_err) { r = z; l = lz; } }
      if (!l->ok || l->ref_err) continue;
      if (nl >= 3 && i > 0 && i + 1 < nl && g.chance(0.15)) { Recipe z = r; z.n = (int64_t)g.below(3); z.cut = z.trim = z.bs64 = 0; auto lz = get_link(z); if (lz->ok && !lz->ref_err) { r = z; l = lz; } }   // a zero/one/two-sample link between two others
      budget -= r.n * r.ch; if (budget < 2000) budget = 2000;
      Rec &lr = p.add("link"); r.to(lr);
      int pol = (int)g.below(6); int k = pol == 1 ? (int)g.range(1, 12) : pol == 4 ? (int)g.range(1, 6) : pol == 5 ? (int)g.range(200, 3000) : 4;
      if (r.trim) { pol = 1; k = std::max(2, r.tk); }
      if (r.bs64) { if (g.chance(0.75)) { pol = 1; k = (int)g.range(2, 8); } else { pol = g.chance(0.5) ? 0 : 3; k = 4; } }   // the rewritten link is only consistent when its first two audio packets share a page
      long serial; do { serial = (long)g.below(1 << 30) - (g.chance(0.1) ? (1 << 29) : 0); if (g.chance(0.08)) { static const long sp[] = {0, -1, 0x7fffffff, -2147483647L - 1, 1, -2}; serial = sp[g.below(6)]; } /* 0xffffffff, 0x80000000 ... as the 32-bit field reads */ } while (std::find(used.begin(), used.end(), serial) != used.end());
      if ((prop == "C03" || prop == "C13") && !used.empty() && g.chance(0.05)) serial = used[g.below(used.size())];   // damage: a serial number reused by a later link
      used.push_back(serial);
      lr.set("pol", pol).set("k", k).set("serial", serial);
      if (g.chance(0.06) && (prop == "C10" || prop == "C03" || prop == "C13" || prop == "C09")) lr.set("foreign", (int64_t)(g.chance(0.5) ? 1 : g.range(2, 3))).set("fserial", serial ^ 0x5a5a5).set("fbosfirst", (int64_t)g.chance(0.4));
    }
    build_stream(p, sr);
    if (sr.ambiguous_cut) {   // a cut link must keep at least two audio pages, otherwise its start offset is undefined (see StreamRef::ambiguous_cut)
      int li = 0;
      for (auto &r : p.recs) if (r.type == "link") { int ap = 0; for (auto &pg : sr.ps.pages) if (pg.link == li && !pg.header && pg.completed > 0) ap++; if (r.i("cut") && ap < 2) r.erase("cut"); if (r.i("bs64") && ap < 2) { r.set("pol", 1); r.set("k", 2); } li++; }
      build_stream(p, sr);
    }
    pktb.clear();
    for (int i = 0; i < sr.nlinks; i++) { int64_t acc = sr.start[i]; for (int cchunk : sr.ps.links[i]->chunk) { acc += cchunk; if (cchunk) pktb.push_back(acc); } }
  }
  void choose_file(double p_seekable) {
    Rec &k = p.add("knob");
    int chunk = 65536; double u = g.unit(); if (u < 0.3) chunk = 8192; else if (u < 0.55) chunk = 2048; else if (u < 0.62) chunk = 4096;
    if (chunk <= sr.ps.max_page + 64) chunk = 65536;
    static const int rs[] = {2048, 2048, 2048, 256, 16, 700};
    k.set("chunk", chunk).set("read", rs[g.below(6)]);
    Rec &f = p.add("file");
    bool seekable = g.chance(p_seekable);
    int rdpol = (int)g.below(5); if (rdpol == 1 && sr.bytes.size() > 60000) rdpol = 2;
    f.set("seekable", seekable ? 1 : 0).set("rdpol", rdpol).set("rdk", (int64_t)g.range(1, 3000)).setu("rdseed", g.next() % 100000);
    f.set("open", (int64_t)(g.chance(0.7) ? 0 : g.below(4))).set("poison", (int64_t)g.below(5)).setu("pseed", g.next() % 100000);
    if (!seekable) { f.set("noseekfn", (int64_t)g.below(2)); if (g.chance(0.3)) f.set("ibytes", (int64_t)g.range(1, 5000)); }
    else if (g.chance(0.1)) f.set("ibytes", (int64_t)(g.chance(0.5) ? 4 : g.range(1, 300)));   // a seekable source whose first bytes the application has already read
    if (g.chance(0.3)) f.set("clear2", 1);
    if (g.chance(0.2)) f.set("errnoise", 1);   // a read callback that delivers data may leave any errno behind (glibc's fread does: ENOTTY from its first buffer set-up, EINTR after an internal retry)
    if (g.chance(0.05)) f.set("noclosefn", 1);
    if (f.i("open") >= 2) f.set("stdiobuf", (int64_t)g.range(16, 4096));
  }

  Plan make() {
    Rec &m = p.add("meta"); m.set("prop", prop).setu("seed", c.seed);
    std::string mode = "intact";
    if (prop == "C19") mode = "lap"; else if (prop == "C12") mode = "iofault"; else if (prop == "C03") mode = "damaged"; else if (prop == "C11") mode = "hole";
    else if (prop == "C13") { double u = g.unit(); mode = u < 0.35 ? "intact" : u < 0.7 ? "iofault" : "damaged"; }
    m.set("mode", mode);
    bool many = prop == "C17" || prop == "C09" || prop == "C03";
    choose_stream(prop == "C12" ? 3 : 5, many, prop == "C20" ? 0.12 : 0);
    if (sr.nlinks == 0) return p;
    double pseek = (prop == "C10") ? 0.5 : (prop == "C03" || prop == "C13") ? 0.75 : (prop == "C20" || prop == "C17") ? 0.85 : 1.0;
    choose_file(pseek);
    bool seekable = p.first("file")->i("seekable") != 0;
    if (mode == "damaged") gen_pfaults();
    if (mode == "hole") {   // one audio page in the middle of a link is dropped, fails its checksum, or arrives twice; then the stream is read through
      std::vector<size_t> cand; for (int l = 0; l < sr.nlinks; l++) { std::vector<size_t> gp; for (size_t q = 0; q < sr.ps.pages.size(); q++) if (sr.ps.pages[q].link == l && !sr.ps.pages[q].header && sr.ps.pages[q].granule >= 0) gp.push_back(q); for (size_t a = 1; a + 3 < gp.size(); a++) cand.push_back(gp[a]); }
      if (cand.empty()) { op("open"); linear_read(false); return p; }   // too few pages for a gap with exact surroundings: a plain read-through
      static const char *hk[] = {"drop", "flip", "dup", "drop"}; p.add("pfault").set("kind", hk[g.below(4)]).set("page", (int64_t)cand[g.below(cand.size())]).set("a", (int64_t)(g.next() >> 20));
      op("open"); if (seekable && g.chance(0.3)) op("tells");
      int nr = (int)g.range(1, 3); for (int i = 0; i < nr; i++) op("read_float").set("len", (int64_t)(g.chance(0.3) ? g.range(1, 64) : g.range(64, 4096))).set("rep", 100000);
      op("read_float").set("len", 64).set("rep", 1);
      return p;
    }
    { Rec &oo = op("open"); if ((prop == "C03" || prop == "C13") && g.chance(0.05)) oo.set("how", 1).set("notestopen", 1); }
    if (prop == "C09") { if (g.chance(0.3)) op("info").set("i", (int64_t)g.range(-1, sr.nlinks)); linear_read(g.chance(0.4)); op("read_float").set("len", 64); if (g.chance(0.5)) op("info").set("i", (int64_t)g.range(-1, sr.nlinks)); }
    else if (prop == "C10") { linear_read(true); op("read_float").set("len", 64); if (g.chance(0.5)) p.add("pktpath").set("frag", (int64_t)g.range(1, 5000)).setu("seed", g.next() % 1000); }
    else if (prop == "C19") { if (!(g.chance(0.15) && gen_laphole())) gen_lap(); }
    else if (prop == "C20") gen_halfrate(seekable);
    else if (prop == "C12" || (prop == "C13" && mode == "iofault")) gen_iofault();
    else if (mode == "damaged") gen_anyops(seekable);
    else if (prop == "C17" && !seekable) { if (g.chance(0.2)) op("halfrate").set("flag", 1); linear_read(true); op("read_int").set("word", 2).set("sgned", 1).set("be", 0).set("len", 64).set("rep", 1); }
    else if (prop == "C08" && sr.total > 0 && g.chance(thorough ? 0.5 : 0.2)) gen_targets();
    else gen_seeks(prop == "C08" ? 0.2 : 0.08, prop == "C17" ? 0.8 : 0.25);
    if (prop == "C13" && g.chance(0.3)) { auto ops = p.all("op"); size_t cut = 1 + g.below(ops.size()); size_t n = 0; Plan q; for (auto &r : p.recs) { if (r.type == "op" && n++ >= cut) continue; q.recs.push_back(r); } p = q; }
    if (g.chance(0.25)) op("clear").set("twice", (int64_t)g.below(2));
    return p;
  }
  void gen_seeks(double oor, double p_int) {
    int n = (int)g.range(3, thorough ? 24 : 14);
    if (g.chance(0.3)) read_op(p_int);
    for (int i = 0; i < n; i++) {
      double u = g.unit();
      if (u < 0.06) { op("raw_seek").set("a", sr.ps.pages.empty() ? 0 : sr.ps.pages.back().off + (int64_t)g.below(20)); }                 // history: raw seek into the last page
      else if (u < 0.10) { op("pcm_seek").set("a", sr.total); read_op(0, 1); }                                                      // history: at EOF
      else if (u < 0.14) { op("tells"); continue; }
      else if (u < 0.16 && (prop == "C17" || prop == "C07")) { op("halfrate").set("flag", (int64_t)g.below(2)); continue; }   // "regardless of which calls were made before": the reference is then the half-rate linear decode
      else if (u < 0.17) { op("info").set("i", (int64_t)g.range(-2, sr.nlinks + 1)); continue; }
      else seek_op(g.chance(0.07) ? "_lap" : "", true, oor);   // (a lapped seek: past its lap region the position/audio contract is the plain one)
      int nr = (int)g.range(0, 3); for (int j = 0; j < nr; j++) read_op(p_int);
      if (g.chance(0.15)) op("tells");
    }
  }
  // C08: every boundary of the stream at hand (link starts/ends, page granule positions, packet boundaries) +-2 is a seek target, for each
  // seek kind in turn; all of them when that stays under the op cap, an even stride otherwise
  void gen_targets() {
    std::vector<int64_t> b = sr.boundaries; b.insert(b.end(), pktb.begin(), pktb.end()); b.push_back(0); b.push_back(sr.total);
    std::vector<int64_t> t; for (auto x : b) for (int d = -2; d <= 2; d++) { int64_t p = x + d; if (p >= 0 && p <= sr.total) t.push_back(p); }
    std::sort(t.begin(), t.end()); t.erase(std::unique(t.begin(), t.end()), t.end());
    size_t cap = thorough ? 2500 : 350; size_t step = t.size() > cap ? (t.size() + cap - 1) / cap : 1; size_t off = step > 1 ? (size_t)g.below(step) : 0;
    static const char *kinds[] = {"pcm_seek", "pcm_seek_page", "time_seek", "time_seek_page"}; int ki = (int)g.below(4);
    p.recs[0].set("targets", step == 1 ? "all" : "stride");
    for (size_t i = off; i < t.size(); i += step) {
      std::string k = kinds[ki++ & 3]; Rec &r = op(k);
      if (k[0] == 'p') r.set("a", t[i]); else { int64_t pos = std::min(t[i], std::max<int64_t>(0, sr.total - 1)); r.setf("t", time_of(pos, 0.0)); }
      if (g.chance(0.6)) op("read_float").set("len", (int64_t)g.range(16, 600)).set("rep", 1);
    }
    // hundreds of seeks through a source that hands out one byte per call is minutes of callbacks: slow, and taken for a loop by the watchdog
    if ((t.size() - off) / step > 300) for (auto &r : p.recs) if (r.type == "file" && r.i("rdpol") == 1) r.set("rdpol", 2);
  }
  void gen_lap() {
    int n = (int)g.range(2, thorough ? 14 : 8);
    if (g.chance(0.2)) op("halfrate").set("flag", 1);   // both twins: the lap region and its window are those of the halved short block
    for (int i = 0; i < n; i++) {
      double u = g.unit();
      if (g.chance(0.04)) op("halfrate").set("flag", (int64_t)g.below(2));
      if (u < 0.25) { seek_op("", false); if (g.chance(0.7)) read_op(0, 2); }
      else if (u < 0.32) { op("pcm_seek").set("a", g.chance(0.5) ? sr.total : std::max<int64_t>(0, sr.total - (int64_t)g.below(300))); if (g.chance(0.5)) read_op(0, 3); }
      else if (u < 0.42) { Rec &r = op("crosslap"); r.set("a", pick_pos()); if (g.chance(0.4)) r.set("hrb", (int64_t)g.below(2)); if (g.chance(0.06)) r.set("self", 1);
        if (g.chance(0.35)) r.set("bhist", 1).set("brd", (int64_t)(g.chance(0.5) ? g.range(0, 600) : g.range(600, 9000))); }   // the second handle got where it is by a lapped seek and reads, not by a plain seek
      else if (u < 0.45 && sr.nlinks > 1) { int l = (int)g.range(1, sr.nlinks - 1); op("pcm_seek").set("a", std::max<int64_t>(0, sr.start[l] - (int64_t)g.below(200))); read_op(0, 2); seek_op("_lap", g.chance(0.1)); }
      else if (u < 0.50) {   // a seek that fails once dumps the decode state and leaves the read cursor where it was; the lapped seek that follows has to find out where that is
        static const char *fk[] = {"SEEKFAIL", "SEEKFAIL", "EIO", "TELLFAIL"}; seek_op("", false); p.recs.back().set("fault", fmt("%s@%d", fk[g.below(4)], (int)g.below(6))); seek_op("_lap", false); }
      else seek_op("_lap", true, 0.06);
      if (g.chance(0.3)) read_op(0, 2);
    }
  }
  // C19 on a stream with one lost / rejected / repeated page: the old position is placed so close in front of the gap that the lap data has to
  // be collected across it ("the audio that would have been read next" is what a reader gets there: the rest of the pending block, then the
  // audio decoded after the gap), and the lapped seek goes to a place where the stream is undisturbed
  bool gen_laphole() {
    std::vector<size_t> cand; for (int l = 0; l < sr.nlinks; l++) { std::vector<size_t> gp; for (size_t q = 0; q < sr.ps.pages.size(); q++) if (sr.ps.pages[q].link == l && !sr.ps.pages[q].header && sr.ps.pages[q].granule >= 0) gp.push_back(q); for (size_t a = 1; a + 3 < gp.size(); a++) cand.push_back(gp[a]); }
    if (cand.empty()) return false;
    size_t mark = p.recs.size();
    static const char *hk[] = {"drop", "flip", "dup", "drop"}; p.add("pfault").set("kind", hk[g.below(4)]).set("page", (int64_t)cand[g.below(cand.size())]).set("a", (int64_t)(g.next() >> 20));
    p.recs[0].set("hole", 1);
    StreamRef s2; build_stream(p, s2);
    if (!s2.hole) { p.recs.resize(mark); p.recs[0].erase("hole"); build_stream(p, sr); return false; }
    int L = sr.link_of(std::min(s2.hole_at, std::max<int64_t>(0, sr.total - 1))); int64_t bs0 = sr.ps.links[(size_t)L]->bs0, bs1 = sr.ps.links[(size_t)L]->bs1;
    auto safe_target = [&]() -> int64_t {
      int64_t reach = 3 * bs1 + 128; std::vector<std::pair<int64_t, int64_t>> iv;
      if (s2.hole_lo - reach > 0) iv.push_back({0, s2.hole_lo - reach}); if (s2.hole_hi + bs1 < sr.total) iv.push_back({s2.hole_hi + bs1, sr.total - 1});
      if (iv.empty()) return g.range(0, sr.total); auto &v = iv[g.below(iv.size())]; return g.range(v.first, v.second); };
    op("open");
    int n = (int)g.range(1, thorough ? 6 : 3);
    for (int i = 0; i < n; i++) {
      int64_t old = s2.hole_at - (g.chance(0.7) ? g.range(0, bs0) : g.range(0, 3 * bs1)); if (g.chance(0.1)) old += g.range(1, bs1);
      old = std::max<int64_t>(0, std::min(sr.total, old));
      op(g.chance(0.8) ? "pcm_seek" : "pcm_seek_page").set("a", old);
      if (g.chance(0.4)) op("read_float").set("len", (int64_t)g.range(1, std::max<int64_t>(2, bs0))).set("rep", 1);
      static const char *lk[] = {"pcm_seek_lap", "pcm_seek_lap", "pcm_seek_page_lap", "time_seek_lap", "time_seek_page_lap"}; std::string k = lk[g.below(5)];
      int64_t tgt = g.chance(0.9) ? safe_target() : pick_pos(); Rec &r = op(k);
      if (k[0] == 'p') r.set("a", tgt); else r.setf("t", time_of(std::min(tgt, std::max<int64_t>(0, sr.total - 1)), g.chance(0.5) ? 0.0 : g.unit() * 0.999));
      if (g.chance(0.3)) read_op(0, 2);
    }
    return true;
  }
  void gen_refusal() {   // stream has a 64-sample link: ov_halfrate(1) must be refused and change nothing (twin comparison)
    p.add("mirror");
    int n = (int)g.range(3, thorough ? 16 : 10);
    if (g.chance(0.5)) op("halfrate").set("flag", 1);
    for (int i = 0; i < n; i++) {
      double u = g.unit();
      if (u < 0.3) op("halfrate").set("flag", 1);
      else if (u < 0.4) op("tells");
      else if (u < 0.7) seek_op("", true, 0.05);
      else read_op(0.15);
      if (g.chance(0.5)) read_op(0.15);
    }
  }
  void gen_halfrate(bool seekable) {
    if (sr.has_bs64 && seekable) { gen_refusal(); return; }
    if (!seekable) { if (g.chance(0.8)) op("halfrate").set("flag", 1); linear_read(true); op("read_float").set("len", 64); return; }
    int n = (int)g.range(3, thorough ? 20 : 12); bool on = false;
    auto onflag = [&]() -> int64_t { static const int64_t nz[] = {2, 3, -1, 256, 0x40000000}; return g.chance(0.8) ? 1 : nz[g.below(5)]; };   // "zero turns it off; nonzero turns it on"
    if (g.chance(0.4)) { op("halfrate").set("flag", onflag()); on = true; if (g.chance(0.3)) { linear_read(false); return; } }
    for (int i = 0; i < n; i++) {
      double u = g.unit();
      if (u < 0.22) { on = !on || g.chance(0.1); op("halfrate").set("flag", on ? onflag() : 0); }
      else if (u < 0.30) { op("pcm_seek").set("a", sr.total - std::min<int64_t>(sr.total, (int64_t)g.below(3))); }
      else if (u < 0.36) { op("tells"); }
      else seek_op(g.chance(0.12) ? "_lap" : "", true, 0.05);   // lapped seeks too: past the lap region "the audio after any seek" holds for them as well
      int nr = (int)g.range(0, 3); for (int j = 0; j < nr; j++) read_op(0.15);
    }
    if (g.chance(0.3)) { op("pcm_seek").set("a", 0); linear_read(false); }
  }
  void gen_iofault() {
    // scenario: open, a few reads, one seek of each kind, reads, lap seek, half-rate toggle; one fault attached to one op; heal; recovery probes
    std::vector<size_t> opidx;
    auto mark = [&]() { opidx.push_back(p.recs.size() - 1); };
    mark();  // the open
    int nr = (int)g.range(0, 3); for (int i = 0; i < nr; i++) { read_op(0.2, 2); mark(); }
    int ns = (int)g.range(1, 5); for (int i = 0; i < ns; i++) { seek_op("", false); mark(); if (g.chance(0.7)) { read_op(0.2, 2); mark(); } }
    size_t lapidx = 0; if (g.chance(0.45)) { seek_op("_lap", false); mark(); lapidx = opidx.back(); }
    if (g.chance(0.2)) { op("halfrate").set("flag", (int64_t)g.below(2)); mark(); op("halfrate").set("flag", 0); }
    if (g.chance(0.2)) { op("tells"); mark(); }
    size_t xlidx = 0; if (g.chance(0.14)) { Rec &r = op("crosslap"); r.set("a", pick_pos()); if (g.chance(0.3)) r.set("hrb", (int64_t)g.below(2)); mark(); xlidx = opidx.back();
      if (g.chance(0.5)) { static const char *bk[] = {"EIO", "EIO", "EOF0", "SEEKFAIL", "SHORT1"}; r.set("bfault", fmt("%s@%d%s", bk[g.below(5)], (int)g.below(14), g.chance(0.7) ? ":p" : "")); } }   // ov_crosslap: lap data collected from the first handle while its source fails
    // fault: kind x callback ordinal x persistence (the per-scenario enumeration over ordinals is done by the driver via fault=... rewriting)
    size_t target = opidx[g.below(opidx.size())]; if (lapidx && g.chance(0.4)) target = lapidx; if (xlidx && g.chance(0.5)) target = xlidx;   // the lapped seeks embed a seek and a priming read: two places for a failure to be swallowed
    static const char *kinds[] = {"EIO", "EOF0", "SHORT1", "SEEKFAIL", "TELLFAIL"};
    std::string pers = g.chance(0.5) ? "" : (g.chance(0.6) ? ":p" : fmt(":%d", (int)g.range(2, 6)));
    if (prop == "C13" && g.chance(0.6)) target = opidx[0];   // "opens that fail": the open makes the most allocations that a failure path has to give back
    if ((prop == "C12" && g.chance(thorough ? 0.8 : 0.5)) || (prop == "C13" && g.chance(0.5))) {   // per-scenario enumeration of the fault position over every callback of the target op
      int oi = 0, eop = 0; for (size_t q = 0; q < p.recs.size(); q++) if (p.recs[q].type == "op") { if (q == target) eop = oi; oi++; }
      p.recs[0].set("enum", std::string(kinds[g.below(5)]) + pers).set("eop", eop).set("ecap", thorough ? 600 : 120).set("ebudget", thorough ? 20000000 : 1500000);
    } else
    p.recs[target].set("fault", fmt("%s@%d%s", kinds[g.below(5)], (int)g.below(g.chance(0.7) ? 12 : 120), pers.c_str()));
    op("heal");
    int np = (int)g.range(2, 4); for (int i = 0; i < np; i++) { Rec &r = op(g.chance(0.8) ? "pcm_seek" : "pcm_seek_page"); r.set("a", pick_pos()); read_op(0.1, 3); }
    if (g.chance(0.3)) op("tells");
    if (g.chance(0.2)) seek_op("_lap", false);
    if (g.chance(0.2)) op("halfrate").set("flag", 1);
  }
  void gen_pfaults() {
    int nf = (int)g.range(1, 4); size_t np = sr.ps.pages.size(); if (!np) return;
    static const char *kinds[] = {"drop", "dup", "swap", "move", "garbage", "flip", "sflip", "sflip", "gran", "serial", "pageno", "flags", "tear", "trunc", "noeos"};
    for (int i = 0; i < nf; i++) {
      Rec &r = p.add("pfault"); std::string k = kinds[g.below(15)]; r.set("kind", k);
      size_t page; double u = g.unit();
      if (u < 0.25) page = g.below(std::min<size_t>(np, 4)); else if (u < 0.45) page = np - 1 - g.below(std::min<size_t>(np, 3));
      else if (u < 0.65 && sr.nlinks > 1) { int l = (int)g.range(1, sr.nlinks - 1); page = 0; for (size_t q = 0; q < np; q++) if (sr.ps.pages[q].off >= sr.ps.link_off[l]) { page = q; break; } page = (page + np - 1 + g.below(4)) % np; }
      else page = g.below(np);
      r.set("page", (int64_t)page);
      if (k == "gran") { static const int64_t lies[] = {-1, 0, 1, -2, INT64_MAX, INT64_MIN, 1000000000000LL}; r.set("a", g.chance(0.5) ? lies[g.below(7)] : g.range(0, sr.total * 2 + 10)); }
      else if (k == "serial") r.set("a", g.chance(0.5) ? sr.ps.serials[g.below(sr.ps.serials.size())] : (int64_t)g.below(1 << 30));
      else if (k == "garbage") { int chunk = (int)p.first("knob")->i("chunk"); r.set("a", g.chance(0.8) ? g.range(1, std::min(chunk / 2, 3000)) : g.range(1, chunk * 2)).setu("b", g.next() % 1000); }
      else r.set("a", (int64_t)(g.next() >> 20));
    }
  }
  void gen_anyops(bool seekable) {
    int n = (int)g.range(2, thorough ? 30 : 16);
    for (int i = 0; i < n; i++) {
      double u = g.unit();
      if (u < 0.35) read_op(0.3, 6);
      else if (u < 0.6) seek_op(g.chance(0.25) ? "_lap" : "", true, 0.15);
      else if (u < 0.67) { Rec &r = op("tells"); if (g.chance(0.3)) r.set("clearagain", 1); }
      else if (u < 0.68) op("clear").set("twice", (int64_t)g.below(2));   // the application clears the handle and goes on calling: every later op meets a closed handle
      else if (u < 0.78) op("info").set("i", (int64_t)g.range(-2, sr.nlinks + 1));
      else if (u < 0.86) op("halfrate").set("flag", (int64_t)g.below(2));
      else if (u < 0.89 && seekable) { Rec &r = op("crosslap"); r.set("a", pick_pos()); if (g.chance(0.6)) r.set("hrb", (int64_t)g.below(2)); if (g.chance(0.4)) r.set("rep", (int64_t)g.range(2, 5)); if (g.chance(0.08)) r.set("self", 1); }
      else if (u < 0.92) linear_read(true);
      else { Rec &r = op("pcm_seek"); r.set("a", pick_pos()); }
    }
    (void)seekable;
  }
};
}  // namespace

Plan vfsim_gen(const GenCfg &cfg) { Gen G(cfg); return G.make(); }

std::vector<Plan> vfsim_simplify(const Plan &p) {
  std::vector<Plan> out;
  auto with = [&](size_t i, std::function<void(Rec &)> f) { Plan q = p; f(q.recs[i]); out.push_back(q); };
  for (size_t i = 0; i < p.recs.size(); i++) {
    const Rec &r = p.recs[i];
    if (r.type == "file") {
      if (r.i("rdpol")) with(i, [](Rec &x) { x.set("rdpol", 0); });
      if (r.i("open")) with(i, [](Rec &x) { x.set("open", 0); });
      if (r.i("ibytes")) with(i, [](Rec &x) { x.set("ibytes", 0); });
      if (r.i("poison") != 0) with(i, [](Rec &x) { x.set("poison", 0); });
      if (r.i("clear2")) with(i, [](Rec &x) { x.set("clear2", 0); });
      if (r.i("noclosefn")) with(i, [](Rec &x) { x.set("noclosefn", 0); });
      if (r.i("errnoise")) with(i, [](Rec &x) { x.set("errnoise", 0); });
    } else if (r.type == "knob") {
      if (r.i("chunk") != 65536) with(i, [](Rec &x) { x.set("chunk", 65536); });
      if (r.i("read") != 2048) with(i, [](Rec &x) { x.set("read", 2048); });
    } else if (r.type == "link") {
      if (r.i("foreign")) with(i, [](Rec &x) { x.set("foreign", 0); });
      if (r.i("fbosfirst")) with(i, [](Rec &x) { x.set("fbosfirst", 0); });
      if (r.i("cut") > 1) with(i, [](Rec &x) { x.set("cut", 1); });
      if (r.i("pol")) with(i, [](Rec &x) { x.set("pol", 0); });
    } else if (r.type == "op") {
      if (r.has("rep") && r.i("rep") != 1) with(i, [](Rec &x) { x.set("rep", 1); });
      if (r.s("kind") == "read_int" || r.s("kind") == "read_filter") with(i, [](Rec &x) { x.set("kind", "read_float"); x.erase("word"); x.erase("sgned"); x.erase("be"); });
      if (r.has("len") && r.i("len") != 4096 && r.s("kind") == "read_float") with(i, [](Rec &x) { x.set("len", 4096); x.erase("lenseed"); });
      std::string f = r.s("fault"); auto col = f.find(':');
      if (col != std::string::npos) with(i, [col, f](Rec &x) { x.set("fault", f.substr(0, col)); });
      if (r.has("twice") && r.i("twice")) with(i, [](Rec &x) { x.set("twice", 0); });
    }
  }
  return out;
}
