// pktsim.cpp — packet-level decoder under simulation: real encoder -> PacketChannel (transport faults) -> real decoder.
//   mode=local (C11): one or more disturbance experiments on a link; chunks from the second packet after the disturbance on must be
//                     bit-identical to the undisturbed decode ("exp" records; several records with the same id form one experiment).
//   mode=chaos (C02/C13): header phase + audio phase with faults on any packet and a seeded call history; safety, budgets, clear-after-reject.
#include "corpus.hpp"
#include "hdrmap.hpp"
#include <set>


namespace {

bool documented_code(long r) { return (r <= -1 && r >= -3) || (r <= -128 && r >= -138); }

struct Deliv {   // one delivery on the channel
  int orig = -1;                 // index of the original audio packet this delivery stems from (-1: foreign / junk)
  std::vector<uint8_t> data; int64_t granule = -1; bool bos = false, eos = false; int64_t packetno = 0;
  bool restart_before = false; bool fresh_before = false; bool intact = true; bool track = false;
};

struct Dec {   // a packet-level decoder instance over poisoned storage
  vorbis_info vi; vorbis_comment vc; vorbis_dsp_state vd; vorbis_block vb; bool have_vi = false, have_vd = false; int nch = 0;
  int headers(const std::vector<Pkt> &hdr) {
    vorbis_info_init(&vi); vorbis_comment_init(&vc); have_vi = true;
    for (int i = 0; i < 3 && i < (int)hdr.size(); i++) { ogg_packet op = pkt_to_op(hdr[i]); int r = vorbis_synthesis_headerin(&vi, &vc, &op); if (r) return r; }
    return 0;
  }
  int init() { int r = vorbis_synthesis_init(&vd, &vi); if (r == 0) { vorbis_block_init(&vd, &vb); have_vd = true; nch = vi.channels; } return r; }
  void clear() { if (have_vd) { vorbis_block_clear(&vb); vorbis_dsp_clear(&vd); have_vd = false; } if (have_vi) { vorbis_comment_clear(&vc); vorbis_info_clear(&vi); have_vi = false; } }
};

struct PkRun {
  const Plan &plan; std::string prop, mode; Hasher h; bool nontrivial = false;
  explicit PkRun(const Plan &p) : plan(p) {}
  [[noreturn]] void fail(const std::string &site, const std::string &sym, const std::string &detail, std::map<std::string, std::string> facts = {}) {
    SimViolation v; v.prop = prop; v.cls = prop + "/" + site + "/" + sym; v.detail = detail; v.facts = facts; throw v;
  }
  void check(bool c, const std::string &site, const std::string &sym, const std::string &detail, std::map<std::string, std::string> facts = {}) { if (!c) fail(site, sym, detail, facts); }

  // apply the granule-visibility mode of the channel: 0 = every packet carries the encoder's granule position; k>0 = only every k-th packet and the last one (page-final packets)
  static void granule_mode(std::vector<Deliv> &d, int k) {
    if (k <= 0) return;
    for (size_t i = 0; i < d.size(); i++) if (!d[i].eos && ((int)(i % (size_t)k) != k - 1)) d[i].granule = -1;
  }

  // decode a delivery list with pristine headers; per-delivery output chunk (all channels concatenated per channel)
  struct Out { std::vector<std::vector<float>> pcm; int n = 0; int ret = 0; bool blocked = false; };
  void decode(const Link &l, const std::vector<Deliv> &dl, std::vector<Out> &out, int halfrate) {
    Dec D; int r = D.headers(l.hdr); check(r == 0, "headerin", "pristine-headers-rejected", fmt("ret=%d", r));
    if (halfrate) vorbis_synthesis_halfrate(&D.vi, 1);
    r = D.init(); check(r == 0, "synthesis_init", "failed-on-pristine-headers", fmt("ret=%d", r));
    out.assign(dl.size(), Out());
    for (size_t i = 0; i < dl.size(); i++) {
      const Deliv &d = dl[i];
      if (d.fresh_before) { D.clear(); r = D.headers(l.hdr); if (halfrate) vorbis_synthesis_halfrate(&D.vi, 1); r = D.init(); check(r == 0, "synthesis_init", "failed-on-pristine-headers", fmt("ret=%d", r)); g_stats.inc("fault.pkt.fresh_decoder"); }
      if (d.restart_before) { int rr = vorbis_synthesis_restart(&D.vd); check(rr == 0, "restart", "failed", fmt("ret=%d", rr)); g_stats.inc("fault.pkt.restart"); }
      ogg_packet op; op.packet = const_cast<unsigned char *>(d.data.data()); op.bytes = (long)d.data.size(); op.b_o_s = d.bos; op.e_o_s = d.eos; op.granulepos = d.granule; op.packetno = d.packetno;
      sim_tick("packet");
      int sr = d.track ? vorbis_synthesis_trackonly(&D.vb, &op) : vorbis_synthesis(&D.vb, &op); out[i].ret = sr;
      check(sr == 0 || documented_code(sr), "synthesis", "undocumented-return", fmt("ret=%d", sr));
      if (sr == 0) { int br = vorbis_synthesis_blockin(&D.vd, &D.vb); check(br == 0 || documented_code(br), "blockin", "undocumented-return", fmt("ret=%d", br)); out[i].blocked = br == 0; }
      float **pcm; int n; out[i].pcm.assign(D.nch, {});
      while ((n = vorbis_synthesis_pcmout(&D.vd, &pcm)) > 0) { for (int c = 0; c < D.nch; c++) out[i].pcm[c].insert(out[i].pcm[c].end(), pcm[c], pcm[c] + n); vorbis_synthesis_read(&D.vd, n); out[i].n += n; }
      h.i64(sr); h.i64(out[i].n); for (int c = 0; c < D.nch; c++) h.f32s(out[i].pcm[c].data(), out[i].pcm[c].size());
    }
    D.clear();
  }

  static std::vector<Deliv> pristine(const Link &l) {
    std::vector<Deliv> d; for (size_t i = 0; i < l.audio.size(); i++) { Deliv x; x.orig = (int)i; x.data = l.audio[i].data; x.granule = l.audio[i].granule; x.eos = l.audio[i].eos; x.packetno = l.audio[i].packetno; d.push_back(std::move(x)); }
    return d;
  }

  // one packet-transport fault; returns the index of the last original packet it disturbs and (by reference) the first original index whose output must be clean again
  void apply_fault(std::vector<Deliv> &dl, const Rec &f, const Link &l, const Link *other, int &last_dist, int &first_clean) {
    std::string k = f.s("kind"); int d = (int)f.i("d"); int64_t a = f.i("a"); uint64_t b = f.u("b");
    auto pos_of = [&](int orig) { for (size_t i = 0; i < dl.size(); i++) if (dl[i].orig == orig) return (int)i; return -1; };
    int p = pos_of(d); if (p < 0) { last_dist = std::max(last_dist, d); first_clean = std::max(first_clean, d + 2); return; }
    int P = (int)l.audio.size(); (void)P;
    if (k == "drop") { dl.erase(dl.begin() + p); g_stats.inc("fault.pkt.drop"); first_clean = std::max(first_clean, d + 2); }
    else if (k == "dup") { Deliv c = dl[p]; c.intact = false; dl.insert(dl.begin() + p + 1, c); dl[p].intact = false; g_stats.inc("fault.pkt.dup"); first_clean = std::max(first_clean, d + 2); }
    else if (k == "swap") { int q = pos_of(d + 1); if (q == p + 1) { std::swap(dl[p], dl[q]); dl[p].intact = dl[q].intact = false; g_stats.inc("fault.pkt.swap"); } last_dist = std::max(last_dist, d + 1); first_clean = std::max(first_clean, d + 3); }
    else if (k == "trunc") { size_t n = dl[p].data.size(); size_t keep = n ? (size_t)((uint64_t)a % n) : 0; dl[p].data.resize(keep); dl[p].intact = false; g_stats.inc("fault.pkt.truncate"); first_clean = std::max(first_clean, d + 2); }
    else if (k == "extend") { Prng r(b + 7); size_t add = 1 + (size_t)((uint64_t)a % 64); for (size_t i = 0; i < add; i++) dl[p].data.push_back((uint8_t)r.next()); dl[p].intact = false; g_stats.inc("fault.pkt.extend"); first_clean = std::max(first_clean, d + 2); }
    else if (k == "flip") { Prng r(b + 11); int nb = 1 + (int)((uint64_t)a % 8); size_t n = dl[p].data.size(); for (int i = 0; i < nb && n; i++) { size_t bit = (size_t)r.below(n * 8); dl[p].data[bit / 8] ^= (uint8_t)(1u << (bit % 8)); } dl[p].intact = false; g_stats.inc("fault.pkt.flip"); first_clean = std::max(first_clean, d + 2); }
    else if (k == "stomp") { size_t n = dl[p].data.size(); if (n) { static const uint8_t vals[] = {0x00, 0xFF, 0x80, 0x7F, 0x01}; dl[p].data[(size_t)((uint64_t)a % n)] = vals[b % 5]; } dl[p].intact = false; g_stats.inc("fault.pkt.stomp"); first_clean = std::max(first_clean, d + 2); }
    else if (k == "garbage") { Prng r(b + 13); size_t n = (size_t)((uint64_t)a % 400); dl[p].data.resize(n); for (auto &c : dl[p].data) c = (uint8_t)r.next(); if (n) dl[p].data[0] &= 0xFE; dl[p].intact = false; g_stats.inc("fault.pkt.garbage"); first_clean = std::max(first_clean, d + 2); }
    else if (k == "foreign") { if (other && !other->audio.empty()) { const Pkt &q = other->audio[(size_t)((uint64_t)a % other->audio.size())]; dl[p].data = q.data; dl[p].intact = false; g_stats.inc("fault.pkt.misroute"); } first_clean = std::max(first_clean, d + 2); }
    else if (k == "header") { dl[p].data = l.hdr[(size_t)((uint64_t)a % 3)].data; dl[p].intact = false; g_stats.inc("fault.pkt.header_as_audio"); first_clean = std::max(first_clean, d + 2); }
    else if (k == "track") {   // what a sample-accurate seek does: restart, feed a few packets for position tracking only, then decode
      int nt = 1 + (int)((uint64_t)a % 4); dl[p].restart_before = true;
      for (int t = 0; t < nt && p + t < (int)dl.size(); t++) { dl[p + t].track = true; dl[p + t].intact = false; }
      g_stats.inc("fault.pkt.trackonly_preroll"); last_dist = std::max(last_dist, d + nt - 1); first_clean = std::max(first_clean, d + nt + 1); return; }
    else if (k == "restart") { dl[p].restart_before = true; first_clean = std::max(first_clean, d + 1); last_dist = std::max(last_dist, d - 1); return; }
    else if (k == "fresh") { dl[p].fresh_before = true; dl.erase(dl.begin(), dl.begin() + p); first_clean = std::max(first_clean, d + 1); last_dist = std::max(last_dist, d - 1); return; }
    last_dist = std::max(last_dist, d);
  }

  void run_local() {
    auto links = plan.all("link"); if (links.empty()) return;
    auto l = get_link(Recipe::from(*links[0])); if (!l->ok || l->audio.size() < 4) return;
    std::shared_ptr<Link> other; if (links.size() > 1) { other = get_link(Recipe::from(*links[1])); if (!other->ok) other.reset(); }
    const Rec *ch = plan.first("chan"); int gk = ch ? (int)ch->i("gran", 0) : 0; int hr = ch ? (int)ch->i("halfrate", 0) : 0;
    h.str(l->r.key()); h.i64(gk);
    // undisturbed decode under the same granule visibility
    std::vector<Deliv> clean = pristine(*l); granule_mode(clean, gk);
    std::vector<Out> O; decode(*l, clean, O, hr);
    int P = (int)clean.size();
    // experiments
    std::map<int64_t, std::vector<const Rec *>> exps; std::vector<int64_t> order;
    for (auto *e : plan.all("exp")) { int64_t id = e->i("id", (int64_t)(e - &plan.recs[0])); if (!exps.count(id)) order.push_back(id); exps[id].push_back(e); }
    for (auto id : order) {
      std::vector<Deliv> dl = pristine(*l); granule_mode(dl, gk);
      int last_dist = -1, first_clean = 0; std::string kinds;
      for (auto *f : exps[id]) { apply_fault(dl, *f, *l, other.get(), last_dist, first_clean); kinds += (kinds.empty() ? "" : "+") + f->s("kind"); }
      std::vector<Out> D; decode(*l, dl, D, hr);
      nontrivial = true; g_stats.inc("probe.local_experiments");
      // The decoder trims the first and the last block of a stream against the granule positions it is shown, using its own running
      // sample count. A disturbance perturbs that count until the next packet that carries a position (every packet, or page-final
      // packets only, depending on the channel): at that packet a trim of the beginning, and at an end-of-stream packet that comes
      // before any such packet a trim of the end, are computed from the perturbed count - the format gives the decoder nothing else.
      // There only the content is demanded (the shorter chunk must be a prefix or a suffix of the other); everywhere else exact equality.
      int resync_at = -1;
      for (size_t i = 0; i < dl.size(); i++) { const Deliv &d = dl[i]; if (d.orig > last_dist && d.intact && d.granule != -1) { resync_at = d.orig; break; } }
      // `suspect`: the count running at the re-synchronisation point includes a block that is not the stream's own (a damaged, foreign or
      // garbage packet the decoder accepted: its block size, which may be larger than the original's, went into the count - also when it is
      // the very block the count restarted at, whose size is the "previous block" of the next one)
      bool broke = false, suspect = false;
      { int64_t prevno = -1; bool any = false; for (size_t i = 0; i < dl.size(); i++) { bool brk = false; if (dl[i].restart_before || dl[i].fresh_before) { broke = true; brk = true; any = false; } if (!D[i].blocked) continue; if (any && dl[i].packetno != prevno + 1 && dl[i].orig > 0) { broke = true; brk = true; }
          if (brk) suspect = !dl[i].intact; else if (!dl[i].intact) suspect = true;
          prevno = dl[i].packetno; any = true; if (dl[i].orig >= 0 && dl[i].orig == resync_at) break; } }
      for (size_t i = 0; i < dl.size(); i++) {
        const Deliv &d = dl[i]; if (d.orig < 0 || !d.intact) continue;
        if (d.orig < first_clean) continue;
        const Out &a = D[i], &b = O[(size_t)d.orig];
        std::map<std::string, std::string> facts = {{"kind", kinds}, {"gran", std::to_string(gk)}, {"hr", std::to_string(hr)}};
        // ... but only a count that ran on *without* a sequence break can be too large: a break (lost, repeated, reordered or rejected
        // packet, restart) makes the decoder forget its count, and a fresh count can never exceed the stream's own position
        bool lenient = (d.orig == resync_at) && (!broke || suspect || d.eos);
        if (!lenient) {
          check(a.n == b.n, "locality", "chunk-length-differs", fmt("experiment %s: packet %d (first clean %d, last disturbed %d, resync at %d) returned %d samples, undisturbed decode %d", kinds.c_str(), d.orig, first_clean, last_dist, resync_at, a.n, b.n), facts);
          for (size_t c = 0; c < a.pcm.size() && c < b.pcm.size(); c++) if (a.n && memcmp(a.pcm[c].data(), b.pcm[c].data(), (size_t)a.n * sizeof(float))) {
            int first = 0; while (first < a.n && !memcmp(&a.pcm[c][first], &b.pcm[c][first], 4)) first++;
            check(false, "locality", "samples-differ-after-disturbance", fmt("experiment %s: packet %d ch %zu sample %d: %g vs %g (first clean %d, last disturbed %d)", kinds.c_str(), d.orig, c, first, a.pcm[c][first], b.pcm[c][first], first_clean, last_dist), facts);
          }
        } else {
          int m = std::min(a.n, b.n); bool pre = true, suf = true;
          for (size_t c = 0; c < a.pcm.size() && c < b.pcm.size(); c++) if (m) {
            if (memcmp(a.pcm[c].data(), b.pcm[c].data(), (size_t)m * 4)) pre = false;
            if (memcmp(a.pcm[c].data() + (a.n - m), b.pcm[c].data() + (b.n - m), (size_t)m * 4)) suf = false;
          }
          // (the end is only ever cut at an end-of-stream packet; anywhere else a count that ran ahead can only cost the beginning of the block)
          check(d.eos ? (pre || suf) : suf, "locality", "samples-differ-after-disturbance", fmt("experiment %s: packet %d (position re-synchronised here, eos=%d): %d vs %d samples and %s", kinds.c_str(), d.orig, (int)d.eos, a.n, b.n, d.eos ? "neither a common prefix nor a common suffix" : "no common suffix (only the beginning of a block may be trimmed at a packet that does not end the stream)"), facts);
          if (a.n != b.n) g_stats.inc("probe.trim_at_resync_tolerated");
        }
        g_stats.inc("probe.local_chunks_compared");
      }
      // a single corrupted packet that is still decoded must not change anything before it either
      if (exps[id].size() == 1) { const Rec *f = exps[id][0]; std::string k = f->s("kind"); int d0 = (int)f->i("d");
        if (k == "trunc" || k == "flip" || k == "stomp" || k == "extend" || k == "garbage" || k == "foreign") for (size_t i = 0; i < dl.size(); i++) if (dl[i].orig >= 0 && dl[i].orig < d0) {
          const Out &a = D[i], &b = O[(size_t)dl[i].orig]; bool same = a.n == b.n; for (size_t c = 0; same && c < a.pcm.size(); c++) if (a.n && memcmp(a.pcm[c].data(), b.pcm[c].data(), (size_t)a.n * 4)) same = false;
          check(same, "locality", "earlier-output-changed", fmt("experiment %s at %d changed the output of packet %d", k.c_str(), d0, dl[i].orig), {{"kind", k}});
        } }
    }
  }

  // ---------------------------------------------------------------- chaos mode (C02 / C13)
  // damage aimed at one header field (chosen by tag first, so that singleton fields weigh as much as the numerous ones): boundary values,
  // neighbours of the current value, the value of a sibling field (duplicates), one flipped bit, or a random value
  static void field_fault(std::vector<uint8_t> &data, const std::vector<HdrField> &fields, uint64_t a, uint64_t b) {
    if (fields.empty()) return;
    std::map<std::string, std::vector<size_t>> by; for (size_t i = 0; i < fields.size(); i++) by[fields[i].tag].push_back(i);
    auto it = by.begin(); std::advance(it, (long)(a % by.size())); const std::vector<size_t> &grp = it->second; const HdrField &f = fields[grp[(size_t)((a / 977) % grp.size())]];
    uint64_t cur = hm_get(data, f), maxv = f.width >= 64 ? ~0ull : ((1ull << f.width) - 1), v;
    switch (b % 10) { case 0: v = 0; break; case 1: v = maxv; break; case 2: v = maxv - 1; break; case 3: v = 1; break; case 4: v = cur + 1; break; case 5: v = cur - 1; break; case 6: v = 1ull << (f.width - 1); break;
      case 7: v = hm_get(data, fields[grp[(size_t)((b / 10) % grp.size())]]); break; case 8: v = cur ^ (1ull << ((b / 10) % (uint64_t)f.width)); break; default: { uint64_t x = b * 0x9e3779b97f4a7c15ull; v = splitmix64(x); } }
    hm_set(data, f, v & maxv); g_stats.inc(std::string("fault.field.") + f.tag);
  }

  // absolute addressing of the same damage (header sweeps): field index fi, value kind fv
  static void field_fault_at(std::vector<uint8_t> &data, const std::vector<HdrField> &fields, uint64_t fi, uint64_t fv, uint64_t fb) {
    if (fields.empty()) return; const HdrField &f = fields[(size_t)(fi % fields.size())];
    uint64_t cur = hm_get(data, f), maxv = f.width >= 64 ? ~0ull : ((1ull << f.width) - 1), v;
    switch (fv % 10) { case 0: v = 0; break; case 1: v = maxv; break; case 2: v = maxv - 1; break; case 3: v = 1; break; case 4: v = cur + 1; break; case 5: v = cur - 1; break; case 6: v = 1ull << (f.width - 1); break;
      case 7: { size_t j = (size_t)(fi % fields.size()); size_t k = j; for (size_t d = 1; d < fields.size(); d++) { size_t c = (j + fields.size() - d) % fields.size(); if (!strcmp(fields[c].tag, f.tag)) { k = c; break; } } v = hm_get(data, fields[k]); break; }   // duplicate of the previous sibling
      case 8: v = cur ^ (1ull << (fb % (uint64_t)f.width)); break; default: { uint64_t x = fb * 0x9e3779b97f4a7c15ull + fi; v = splitmix64(x); } }
    hm_set(data, f, v & maxv); g_stats.inc(std::string("fault.field.") + f.tag);
  }
  void mutate(std::vector<uint8_t> &data, const Rec &f, const std::vector<Pkt> *otherhdr, const std::vector<Pkt> *otheraudio) {
    std::string k = f.s("fault"); if (k.empty()) return; int64_t a = f.i("a"); uint64_t b = f.u("b"); size_t n = data.size();
    if (k == "trunc") { data.resize(n ? (size_t)((uint64_t)a % n) : 0); g_stats.inc("fault.pkt.truncate"); }
    else if (k == "extend") { Prng r(b + 7); size_t add = 1 + (size_t)((uint64_t)a % 200); for (size_t i = 0; i < add; i++) data.push_back((uint8_t)r.next()); g_stats.inc("fault.pkt.extend"); }
    else if (k == "flip") { Prng r(b + 11); int nb = 1 + (int)((uint64_t)a % 8); for (int i = 0; i < nb && n; i++) { size_t bit = (size_t)r.below(n * 8); data[bit / 8] ^= (uint8_t)(1u << (bit % 8)); } g_stats.inc("fault.pkt.flip"); }
    else if (k == "stomp") { if (n) { static const uint8_t vals[] = {0x00, 0xFF, 0x80, 0x7F, 0x01, 0xFE, 0x40}; Prng r(b + 3); int cnt = 1 + (int)(b % 3); for (int i = 0; i < cnt; i++) data[(size_t)((uint64_t)(a + (int64_t)r.below(n)) % n)] = vals[r.below(7)]; } g_stats.inc("fault.pkt.stomp"); }
    else if (k == "garbage") { Prng r(b + 13); data.resize((size_t)((uint64_t)a % 3000)); for (auto &c : data) c = (uint8_t)r.next(); g_stats.inc("fault.pkt.garbage"); }
    else if (k == "foreignhdr") { if (otherhdr && otherhdr->size() == 3) { data = (*otherhdr)[(size_t)((uint64_t)a % 3)].data; g_stats.inc("fault.pkt.misroute"); } }
    else if (k == "foreign") { if (otheraudio && !otheraudio->empty()) { data = (*otheraudio)[(size_t)((uint64_t)a % otheraudio->size())].data; g_stats.inc("fault.pkt.misroute"); } }
    else if (k == "empty") { data.clear(); g_stats.inc("fault.pkt.empty"); }
  }

  void run_chaos() {
    auto links = plan.all("link"); if (links.empty()) return;
    auto l = get_link(Recipe::from(*links[0])); if (!l->ok) return;
    std::shared_ptr<Link> other; if (links.size() > 1) { other = get_link(Recipe::from(*links[1])); if (!other->ok) other.reset(); }
    const Rec *cfg = plan.first("cfg"); int poison_mode = cfg ? (int)cfg->i("poison", 4) : 4; uint64_t pseed = cfg ? cfg->u("pseed", 1) : 1;
    h.str(l->r.key());
    simalloc_begin(pseed, poison_mode);
    // objects in poisoned storage, as stack variables would be
    struct Objs { vorbis_info vi; vorbis_comment vc; vorbis_dsp_state vd; vorbis_block vb; };
    Objs *o = (Objs *)new unsigned char[sizeof(Objs)]; { Prng pr(pseed ^ 0x51); unsigned char *m = (unsigned char *)o; for (size_t i = 0; i < sizeof(Objs); i++) m[i] = poison_mode == 0 ? 0 : poison_mode == 1 ? 0xFF : poison_mode == 2 ? 0xAA : (unsigned char)pr.next(); }
    bool have_vi = false, have_vd = false, have_vb = false; int hdr_ok = 0; bool hdr_failed = false; bool any_reject = false; int nch = 0;
    size_t hdr_bytes = 0, max_pkt = 0; bool faulted = false;
    auto ops = plan.all("op");
    auto ensure_vi = [&]() { if (!have_vi) { vorbis_info_init(&o->vi); vorbis_comment_init(&o->vc); have_vi = true; hdr_ok = 0; hdr_failed = false; } };
    auto clear_all = [&](bool twice) {
      if (have_vb) { vorbis_block_clear(&o->vb); if (twice) vorbis_block_clear(&o->vb); have_vb = false; }
      if (have_vd) { vorbis_dsp_clear(&o->vd); if (twice) vorbis_dsp_clear(&o->vd); have_vd = false; }
      if (have_vi) { vorbis_comment_clear(&o->vc); vorbis_info_clear(&o->vi); if (twice) { vorbis_comment_clear(&o->vc); vorbis_info_clear(&o->vi); } have_vi = false; }
    };
    int opi = 0;
    for (auto *opp : ops) {
      const Rec &op = *opp; std::string k = op.s("kind"); g_sim.cur_op = opi++; g_sim.cur_op_name = k; g_stats.inc("op." + k); h.str(k);
      stack_scribble(poison_mode, pseed + (uint64_t)opi);
      if (k == "hdr") {
        ensure_vi();
        int i = (int)op.i("i"); std::vector<uint8_t> data = (op.i("src", 0) && other ? other->hdr : l->hdr)[(size_t)(i % 3)].data;
        size_t before = data.size();
        if (op.s("fault") == "field") {
          int hch = (op.i("src", 0) && other ? other->r.ch : l->r.ch); int hi = i % 3;
          std::vector<HdrField> fm = hi == 0 ? map_id_header(data) : hi == 1 ? map_comment_header(data) : map_setup_header(data, hch);
          field_fault(data, fm, op.u("a"), op.u("b")); if (op.has("a2")) { fm = hi == 0 ? map_id_header(data) : hi == 1 ? map_comment_header(data) : map_setup_header(data, hch); field_fault(data, fm, op.u("a2"), op.u("b2")); }
          g_stats.inc("fault.pkt.header_field");
        } else mutate(data, op, other ? &other->hdr : nullptr, other ? &other->audio : nullptr);
        if (data.size() != before || !op.s("fault").empty()) faulted = true;
        hdr_bytes += data.size();
        ogg_packet p; p.packet = data.data(); p.bytes = (long)data.size(); p.b_o_s = op.has("bos") ? (int)op.i("bos") : (i == 0); p.e_o_s = 0; p.granulepos = op.i("gp", 0); p.packetno = i;
        sim_tick("packet");
        int r = vorbis_synthesis_headerin(&o->vi, &o->vc, &p); h.i64(r);
        check(r == 0 || documented_code(r), "headerin", "undocumented-return", fmt("ret=%d", r));
        if (r == 0) hdr_ok++; else { hdr_failed = true; any_reject = true; g_stats.inc("probe.header_rejected"); }
      } else if (k == "init") {
        ensure_vi();
        if (have_vb) { vorbis_block_clear(&o->vb); have_vb = false; }
        if (have_vd) { vorbis_dsp_clear(&o->vd); have_vd = false; }
        if (op.i("halfrate", 0)) { int hr = vorbis_synthesis_halfrate(&o->vi, 1); h.i64(hr); }
        int r = vorbis_synthesis_init(&o->vd, &o->vi); h.i64(r);
        check(r == 0 || r == 1 || r == -1 || documented_code(r), "synthesis_init", "undocumented-return", fmt("ret=%d", r));
        if (r == 0) { have_vd = true; int br = vorbis_block_init(&o->vd, &o->vb); have_vb = true; nch = o->vi.channels; (void)br; g_stats.inc("probe.init_ok"); }
        else { any_reject = true; g_stats.inc("probe.init_rejected"); /* the API's own failure path already cleared vd */ }
      } else if (k == "pkt") {
        if (!have_vd || !have_vb) { g_stats.inc("ops.skipped_no_decoder"); continue; }
        size_t j = (size_t)(op.u("j") % std::max<size_t>(1, l->audio.size())); if (l->audio.empty()) continue;
        const Pkt &src = l->audio[j]; std::vector<uint8_t> data = src.data;
        mutate(data, op, other ? &other->hdr : nullptr, other ? &other->audio : nullptr); if (!op.s("fault").empty()) faulted = true;
        max_pkt = std::max(max_pkt, data.size());
        ogg_packet p; p.packet = data.data(); p.bytes = (long)data.size(); p.b_o_s = (int)op.i("bos", 0); p.e_o_s = op.has("eos") ? (int)op.i("eos") : src.eos; p.granulepos = op.has("gp") ? op.i("gp") : src.granule;
        // granule regimes: the whole stream shifted to a huge position ("go"), and lies placed relative to the true position ("gl" base, "gd" delta),
        // because the decoder's trimming arithmetic works on differences of positions (all arithmetic wraps, as it would on the wire)
        if (op.has("go") && src.granule != -1 && !op.has("gp")) p.granulepos = (int64_t)((uint64_t)src.granule + (uint64_t)op.i("go"));
        if (op.has("gl")) { static const int64_t base[] = {0, INT64_MIN, -4294967296LL, 4294967296LL, INT64_MAX - 100000}; int64_t truth = src.granule == -1 ? 0 : src.granule; p.granulepos = (int64_t)((uint64_t)base[op.u("gl") % 5] + (uint64_t)truth + (uint64_t)op.i("go", 0) + (uint64_t)op.i("gd", 0)); g_stats.inc("fault.pkt.granule_lie_relative"); faulted = true; }
        p.packetno = op.has("pno") ? op.i("pno") : src.packetno;
        sim_tick("packet");
        bool track = op.i("track", 0) != 0;
        int r = track ? vorbis_synthesis_trackonly(&o->vb, &p) : vorbis_synthesis(&o->vb, &p); h.i64(r);
        check(r == 0 || documented_code(r), track ? "trackonly" : "synthesis", "undocumented-return", fmt("ret=%d", r));
        if (r == 0) { int br = vorbis_synthesis_blockin(&o->vd, &o->vb); h.i64(br); check(br == 0 || documented_code(br), "blockin", "undocumented-return", fmt("ret=%d", br)); }
        else { any_reject = true; g_stats.inc("probe.packet_rejected");
          // the property quantifies over all call orders: a caller that ignores the error and submits the block anyway
          if (op.i("force_blockin", 0)) { int br = vorbis_synthesis_blockin(&o->vd, &o->vb); h.i64(br); check(br == 0 || documented_code(br), "blockin", "undocumented-return", fmt("ret=%d", br)); g_stats.inc("probe.blockin_after_rejected_packet"); } }
        // drain
        int mode = (int)op.i("drain", 1);   // 0 none, 1 all, 2 partial, 3 over-long read, 4 lapout
        float **pcm; int n;
        if (mode == 4) { n = vorbis_synthesis_lapout(&o->vd, &pcm); h.i64(n); if (n > 0) for (int c = 0; c < nch; c++) h.f32s(pcm[c], (size_t)std::min(n, 8192)); }
        else if (mode) {
          int guard = 0;
          while ((n = vorbis_synthesis_pcmout(&o->vd, &pcm)) > 0 && guard++ < 64) {
            check(n <= 8192 * 2, "pcmout", "more-samples-than-a-block-can-hold", fmt("n=%d", n));
            for (int c = 0; c < nch; c++) h.f32s(pcm[c], (size_t)n);   // touches every sample: out-of-bounds counts show up under ASan
            int take = mode == 2 ? std::max(1, n / 2) : mode == 3 ? n + 1 + (int)(op.u("b") % 5000) : n;
            int rr = vorbis_synthesis_read(&o->vd, take); h.i64(rr);
            check(rr == 0 || rr == OV_EINVAL, "read", "undocumented-return", fmt("ret=%d", rr));
            if (mode == 3) { check(rr == OV_EINVAL, "read", "over-long-read-accepted", fmt("asked %d of %d", take, n)); vorbis_synthesis_read(&o->vd, n); }
            if (mode == 2) break;
          }
        }
      } else if (k == "halfrate") {   // toggled on the vorbis_info while a decoder built from it may be live (the API asks for a re-init; the property says all orders)
        if (!have_vi) continue; int r = vorbis_synthesis_halfrate(&o->vi, (int)op.i("flag", 1)); h.i64(r); g_stats.inc("probe.halfrate_toggled_mid_stream");
      } else if (k == "restart") {
        if (!have_vd) continue; int r = vorbis_synthesis_restart(&o->vd); h.i64(r); check(r == 0 || r == -1, "restart", "undocumented-return", fmt("ret=%d", r));
      } else if (k == "clear") {
        clear_all(op.i("twice", 0) != 0);
      }
    }
    clear_all(cfg && cfg->i("clear2", 0));
    delete[] (unsigned char *)o;
    LedgerReport lr = simalloc_end();
    g_stats.max("max.peak_heap_bytes", lr.peak_bytes); g_stats.max("max.single_request", lr.max_request);
    nontrivial = faulted;
    std::map<std::string, std::string> facts = {{"after_reject", any_reject ? "1" : "0"}};
    check(lr.live_blocks == 0, "ledger", "leak", fmt("%zu blocks / %zu bytes still allocated after the clear calls; first: %s", lr.live_blocks, lr.live_bytes, lr.first_leak.c_str()), facts);
    check(lr.foreign_free == 0, "ledger", "foreign-or-double-free", fmt("%d frees of blocks not in the ledger", lr.foreign_free), facts);
    // heap budget fixed by the format's field widths: 255 channels x 8192-sample blocks x a handful of float planes, plus codebook tables tied to the setup packet size
    size_t budget = (size_t)96 * 1024 * 1024 + 4096 * (hdr_bytes + max_pkt);
    if (prop == "C02") check(lr.peak_bytes <= budget && lr.max_request <= budget, "ledger", "heap-budget-exceeded", fmt("peak %zu bytes, largest request %zu, budget %zu (header bytes %zu)", lr.peak_bytes, lr.max_request, budget, hdr_bytes));
  }

  // header sweep (C02): every listed (header, field, boundary value) variant is presented to a fresh decoder, followed by init, a few
  // audio packets and the clear calls.  One "var" record = one variant; a run lists a contiguous slice of a header's fields x all value kinds.
  void run_hdrsweep() {
    auto links = plan.all("link"); if (links.empty()) return; auto l = get_link(Recipe::from(*links[0])); if (!l->ok) return;
    const Rec *cfg = plan.first("cfg"); int poison_mode = cfg ? (int)cfg->i("poison", 4) : 4; uint64_t pseed = cfg ? cfg->u("pseed", 1) : 1;
    h.str(l->r.key());
    std::vector<HdrField> maps[3] = {map_id_header(l->hdr[0].data), map_comment_header(l->hdr[1].data), map_setup_header(l->hdr[2].data, l->r.ch)};
    simalloc_begin(pseed, poison_mode);
    struct Objs { vorbis_info vi; vorbis_comment vc; vorbis_dsp_state vd; vorbis_block vb; };
    Objs *o = (Objs *)new unsigned char[sizeof(Objs)];
    int vi_ = 0;
    for (auto *v : plan.all("var")) {
      { Prng pr(pseed ^ (uint64_t)vi_); unsigned char *m = (unsigned char *)o; for (size_t i = 0; i < sizeof(Objs); i++) m[i] = poison_mode == 0 ? 0 : poison_mode == 1 ? 0xFF : poison_mode == 2 ? 0xAA : (unsigned char)pr.next(); }
      g_sim.cur_op = vi_++; g_sim.cur_op_name = "var"; stack_scribble(poison_mode, pseed + (uint64_t)vi_); watchdog_rearm();
      int hsel = (int)(v->u("h", 2) % 3); std::vector<uint8_t> hd[3] = {l->hdr[0].data, l->hdr[1].data, l->hdr[2].data};
      field_fault_at(hd[hsel], maps[hsel], v->u("fi"), v->u("fv"), v->u("fb")); nontrivial = true; g_stats.inc("probe.header_variants");
      if (v->has("fi2")) { field_fault_at(hd[hsel], maps[hsel], v->u("fi2"), v->u("fv2"), v->u("fb") + 1); g_stats.inc("probe.header_variants_two_fields"); }   // two fields of the same header at once (fixed-width fields: the map stays valid)
      bool go = v->i("go", 0) != 0;   // the caller does not stop at a refused header: the remaining headers are offered and the decoder set up anyway (it has to refuse, or work)
      vorbis_info_init(&o->vi); vorbis_comment_init(&o->vc); int ok = 0;
      for (int i = 0; i < 3; i++) { ogg_packet p; p.packet = hd[i].data(); p.bytes = (long)hd[i].size(); p.b_o_s = i == 0; p.e_o_s = 0; p.granulepos = 0; p.packetno = i; sim_tick("packet");
        int r = vorbis_synthesis_headerin(&o->vi, &o->vc, &p); h.i64(r); check(r == 0 || documented_code(r), "headerin", "undocumented-return", fmt("ret=%d", r)); if (r) { if (go) continue; break; } ok++; }
      if (ok == 3 || go) { g_stats.inc(ok == 3 ? "probe.header_variant_accepted" : "probe.decoder_set_up_after_a_refused_header");
        int r = vorbis_synthesis_init(&o->vd, &o->vi); h.i64(r); if (r == 0 && ok < 3) g_stats.inc("probe.decoder_set_up_after_a_refused_header_succeeded");
        if (r == 0) { vorbis_block_init(&o->vd, &o->vb); int nch = o->vi.channels; size_t np = std::min<size_t>(l->audio.size(), (size_t)v->i("np", 8));
          for (size_t j = 0; j < np; j++) { ogg_packet p = pkt_to_op(l->audio[j]); sim_tick("packet"); int sr = vorbis_synthesis(&o->vb, &p); h.i64(sr); check(sr == 0 || documented_code(sr), "synthesis", "undocumented-return", fmt("ret=%d", sr));
            if (sr == 0) vorbis_synthesis_blockin(&o->vd, &o->vb);
            float **pcm; int n, guard = 0; while ((n = vorbis_synthesis_pcmout(&o->vd, &pcm)) > 0 && guard++ < 8) { check(n <= 8192 * 2, "pcmout", "more-samples-than-a-block-can-hold", fmt("n=%d", n)); for (int c = 0; c < nch; c++) h.f32s(pcm[c], (size_t)n); vorbis_synthesis_read(&o->vd, n); } }
          vorbis_block_clear(&o->vb); vorbis_dsp_clear(&o->vd); g_stats.inc("probe.header_variant_decoded"); }
      } else g_stats.inc("probe.header_rejected");
      vorbis_comment_clear(&o->vc); vorbis_info_clear(&o->vi);
      LedgerReport pk = simalloc_peek();
      check(pk.live_blocks == 0, "ledger", "leak", fmt("header variant h=%d fi=%llu fv=%llu: %zu blocks / %zu bytes still allocated after the clear calls; first: %s", hsel, (unsigned long long)v->u("fi"), (unsigned long long)v->u("fv"), pk.live_blocks, pk.live_bytes, pk.first_leak.c_str()), {{"after_reject", ok == 3 ? "0" : "1"}});
    }
    delete[] (unsigned char *)o;
    LedgerReport lr = simalloc_end(); g_stats.max("max.peak_heap_bytes", lr.peak_bytes);
    check(lr.foreign_free == 0, "ledger", "foreign-or-double-free", fmt("%d frees of blocks not in the ledger", lr.foreign_free));
    size_t budget = (size_t)96 * 1024 * 1024 + 4096 * (l->hdr[2].data.size() + 65536);
    if (prop == "C02") check(lr.peak_bytes <= budget && lr.max_request <= budget, "ledger", "heap-budget-exceeded", fmt("peak %zu bytes, largest request %zu, budget %zu", lr.peak_bytes, lr.max_request, budget));
  }

  void run() {
    const Rec *meta = plan.first("meta"); prop = meta ? meta->s("prop", "C11") : "C11"; mode = meta ? meta->s("mode", "local") : "local";
    if (mode == "local") run_local(); else if (mode == "hdrsweep") run_hdrsweep(); else run_chaos();
  }
};

// ---------------------------------------------------------------- generation
struct PkGen {
  Prng g; const GenCfg &c; Plan p; bool thorough;
  explicit PkGen(const GenCfg &cfg) : g(cfg.seed), c(cfg), thorough(cfg.tier == "thorough") {}
  Recipe small_recipe() {
    Recipe r; static const long rates[] = {8000, 11025, 16000, 22050, 32000, 44100, 48000, 44100};
    for (int tries = 0; tries < 50; tries++) {
      if (g.chance(0.3)) {   // a hand-built stream (craft.cpp): set-up headers of kinds the encoder never writes, noise packets
        r = Recipe(); r.craft = 1; r.rate = rates[g.below(8)]; double cc = g.unit(); r.ch = cc < 0.4 ? 1 : cc < 0.75 ? 2 : cc < 0.9 ? 3 : (int)g.range(4, 8);
        r.seed = g.below(thorough ? 100000 : 4000); r.n = (int64_t)g.range(4, thorough ? 120 : 50); r.ncomm = (int)g.below(3);
        auto l = get_link(r); if (l->ok && !l->ref_err) return r; continue;
      }
      r = Recipe(); r.rate = rates[g.below(8)]; double cc = g.unit(); r.ch = cc < 0.35 ? 1 : cc < 0.8 ? 2 : cc < 0.9 ? 3 : cc < 0.95 ? 6 : 4;
      if (!thorough ? g.chance(0.03) : g.chance(0.06)) r.ch = 9 + (int)g.below(g.chance(0.2) ? 247 : 40);   // thin share of many-channel streams
      r.q = -0.1 + g.unit() * 1.1; r.mode = g.chance(0.15) ? 1 + (int)g.below(3) : 0; if (r.mode) r.nominal = (long)(r.rate * 1.4 * std::min(r.ch, 2) * (0.6 + g.unit()));
      r.n = g.chance(0.15) ? (int64_t)g.range(0, 600) : g.range(2000, thorough ? 60000 : 30000); if (r.ch > 2) r.n = std::min<int64_t>(r.n, 60000 / r.ch); if (r.ch > 8) r.n = std::min<int64_t>(r.n, 2500);
      r.sig = (int)g.below(6); r.seed = g.below(40); r.ncomm = (int)g.below(3);
      if (g.chance(0.08)) r.modes3 = 1 + (int)g.below(2);
      if (r.ch >= 2 && r.ch <= 8 && g.chance(0.25)) r.mute = 1 + (int)g.below((1u << r.ch) - 2);
      // restrict to a pool so that workers re-use encoded links
      r.n = (r.n / 997) * 997 + (r.n < 997 ? r.n % 7 : 0);
      auto l = get_link(r); if (l->ok && !l->ref_err) return r;
    }
    return r;
  }
  Plan make() {
    Rec &m = p.add("meta"); m.set("prop", c.prop).setu("seed", c.seed);
    bool local = c.prop == "C11"; m.set("mode", local ? "local" : "chaos");
    Recipe r = small_recipe(); { Rec &lr = p.add("link"); r.to(lr); }
    Recipe r2 = small_recipe(); { Rec &lr = p.add("link"); r2.to(lr); }
    auto l = get_link(r); int P = (int)l->audio.size();
    if (local) {
      if (P < 4) return p;
      p.add("chan").set("gran", g.chance(0.5) ? 0 : (int64_t)g.range(2, 9)).set("halfrate", g.chance(0.12) ? 1 : 0);
      static const char *kinds[] = {"drop", "dup", "swap", "trunc", "extend", "flip", "stomp", "garbage", "foreign", "header", "restart", "fresh", "track"};
      if (g.chance(0.7)) {
        // per-scenario enumeration of the disturbance position for one fault kind (all positions in the thorough tier, a strided subset otherwise)
        std::string k = kinds[g.below(13)]; int count = thorough ? P : std::min(P, 24); int step = std::max(1, P / count); int from = (int)g.below((uint64_t)step);
        int64_t id = 0; for (int d = from; d < P; d += step) { Rec &e = p.add("exp"); e.set("id", id++).set("kind", k).set("d", d).set("a", (int64_t)(g.next() >> 24)).setu("b", g.next() % 100000); }
        p.recs[0].set("enum", k);
      } else {
        int ne = (int)g.range(3, 10); int64_t id = 0;
        for (int e = 0; e < ne; e++) { int nf = (int)g.range(2, 5); int dmax = (int)g.below((uint64_t)P); for (int f = 0; f < nf; f++) { Rec &x = p.add("exp"); x.set("id", id).set("kind", kinds[g.below(10)]).set("d", (int64_t)std::max(0, dmax - (int)g.below(6))).set("a", (int64_t)(g.next() >> 24)).setu("b", g.next() % 100000); } id++; }
      }
      return p;
    }
    if (g.chance(c.prop == "C02" ? 0.35 : 0.15)) {   // header sweep: a contiguous slice of one header's fields x every value kind
      p.recs[0].set("mode", "hdrsweep"); p.add("cfg").set("poison", (int64_t)g.below(5)).setu("pseed", g.next() % 100000);
      double hu = g.unit(); int hsel = hu < 0.75 ? 2 : hu < 0.92 ? 0 : 1; auto ll = get_link(r);
      size_t nf = hsel == 0 ? map_id_header(ll->hdr[0].data).size() : hsel == 1 ? map_comment_header(ll->hdr[1].data).size() : map_setup_header(ll->hdr[2].data, r.ch).size();
      size_t slice = thorough ? 120 : 40; size_t first = nf > slice ? (size_t)g.below(nf - slice + 1) : 0; uint64_t fb = g.next() % 100000;
      if (hsel == 0 && nf >= 2 && g.chance(0.85)) {   // identification header: one pair of fields x every pair of value kinds, once stopping at the refusal and once going on regardless
        size_t a = (size_t)g.below(nf), b = (size_t)g.below(nf - 1); if (b >= a) b++;
        for (int fv = 0; fv < 10; fv++) for (int fv2 = 0; fv2 < 10; fv2++) for (int go = 0; go < 2; go++) p.add("var").set("h", 0).setu("fi", a).set("fv", fv).setu("fi2", b).set("fv2", fv2).setu("fb", fb).set("go", go).set("np", 16);
        return p; }
      bool goon = g.chance(0.3);
      for (size_t fi = first; fi < std::min(nf, first + slice); fi++) for (int fv = 0; fv < 10; fv++) { Rec &vr = p.add("var"); vr.set("h", hsel).setu("fi", fi).set("fv", fv).setu("fb", fb); if (goon) vr.set("go", 1); }
      return p;
    }
    // chaos
    p.add("cfg").set("poison", (int64_t)g.below(5)).setu("pseed", g.next() % 100000).set("clear2", (int64_t)g.below(2));
    static const char *hf[] = {"trunc", "extend", "flip", "flip", "stomp", "stomp", "garbage", "foreignhdr", "foreign", "empty"};
    auto fault = [&](Rec &o, double pr) { if (g.chance(pr)) o.set("fault", hf[g.below(10)]).set("a", (int64_t)(g.next() >> 24)).setu("b", g.next() % 100000); };
    auto op = [&](const std::string &k) -> Rec & { Rec &o = p.add("op"); o.set("kind", k); return o; };
    // header phase
    double u = g.unit();
    std::vector<int> order = {0, 1, 2};
    if (u < 0.15) order = {0, 1}; else if (u < 0.22) order = {0}; else if (u < 0.27) order = {}; else if (u < 0.34) order = {0, 2, 1}; else if (u < 0.4) order = {1, 0, 2}; else if (u < 0.46) order = {0, 0, 1, 2}; else if (u < 0.5) order = {0, 1, 1, 2};
    double hfp = g.chance(0.5) ? 0.0 : 0.5;
    for (int i : order) { Rec &o = op("hdr"); o.set("i", i); fault(o, hfp);
      if (o.has("fault") && g.chance(0.6)) { o.set("fault", "field").setu("a", g.next() >> 16).setu("b", g.next() >> 16); if (g.chance(0.15)) o.setu("a2", g.next() >> 16).setu("b2", g.next() >> 16); } if (g.chance(0.05)) o.set("src", 1); if (g.chance(0.05)) o.set("bos", (int64_t)g.below(2));
      if (o.has("fault") && g.chance(0.4)) { Rec &o2 = op("hdr"); o2.set("i", i); } }   // retry with the pristine packet
    // a further identification header after the set-up is complete (repeated b_o_s): from the other stream, or with one field changed
    if (g.chance(0.12)) { Rec &o = op("hdr"); o.set("i", 0); if (g.chance(0.5)) o.set("src", 1); else o.set("fault", "field").setu("a", g.next() >> 16).setu("b", g.next() >> 16); if (g.chance(0.2)) o.set("bos", 0); }
    op("init").set("halfrate", g.chance(0.1) ? 1 : 0);
    if (g.chance(0.1)) op("init");
    int n = (int)g.range(0, thorough ? 300 : 80); size_t j = 0; double pf = g.chance(0.3) ? 0.0 : 0.05 + g.unit() * 0.5;
    int64_t go = 0; bool regime = g.chance(0.28); if (regime) { static const int64_t offs[] = {2147483648LL, 4294967296LL, 4294967296LL + 12345, 1099511627776LL, 4611686018427387904LL, INT64_MAX - 50000}; go = offs[g.below(6)]; pf *= 0.3; }
    double glp = regime ? 0.08 : 0.01; bool midhr = g.chance(0.25);
    for (int i = 0; i < n && P > 0; i++) {
      double v = g.unit();
      if (v < 0.03) { op("restart"); continue; }
      if (v < 0.04) { op("init").set("halfrate", (int64_t)g.below(2)); continue; }
      if (v < 0.05 && midhr) { op("halfrate").set("flag", (int64_t)g.below(2)); continue; }
      if (v < 0.10) j = g.below((uint64_t)P); else if (v < 0.13) { /* duplicate */ } else j++;
      if ((int)j >= P) j = (size_t)P - 1;
      Rec &o = op("pkt"); o.setu("j", j); fault(o, pf);
      if (g.chance(0.15)) o.set("track", 1);
      if (o.has("fault") && g.chance(0.15)) o.set("force_blockin", 1);
      double dv = g.unit(); o.set("drain", dv < 0.72 ? 1 : dv < 0.82 ? 0 : dv < 0.92 ? 2 : 3);   // (vorbis_synthesis_lapout is not among the calls C02 quantifies over) if (o.i("drain") == 3) o.setu("b", g.next() % 100000);
      if (g.chance(0.04)) { static const int64_t gl[] = {-1, -2, 0, 1, INT64_MAX, INT64_MIN, 123456789012LL}; o.set("gp", gl[g.below(7)]); }
      if (go) o.set("go", go);
      if (g.chance(glp)) { static const int64_t dl[] = {0, 1, -1, 4096, -4096, 8192, -8192, 1024, -1024, 64, -64}; o.setu("gl", g.below(5)).set("gd", dl[g.below(11)]); if (g.chance(0.6)) o.set("eos", 1); }
      if (g.chance(0.03)) o.set("eos", (int64_t)g.below(2));
      if (g.chance(0.03)) o.set("pno", (int64_t)g.below(100));
      if (g.chance(0.02)) o.set("bos", 1);
      // the block that has just decoded (its storage may have grown for that very packet) is handed a packet it rejects, through either entry
      // point, and is submitted anyway
      if (g.chance(0.04)) { Rec &o2 = op("pkt"); o2.setu("j", j).set("fault", g.chance(0.6) ? "foreignhdr" : "empty").set("a", (int64_t)(g.next() >> 24)).setu("b", g.next() % 100000).set("track", (int64_t)g.below(2)).set("force_blockin", 1).set("drain", 1); }
    }
    // a shifted stream that ends on an end-of-stream packet whose position lies: the end trim's 64-bit arithmetic at its extremes
    if (regime && P > 0 && g.chance(0.5)) { Rec &o = op("pkt"); o.setu("j", std::min<size_t>(j + 1, (size_t)P - 1)).set("drain", 1).set("eos", 1).set("go", go);
      if (g.chance(0.5)) { static const int64_t gl[] = {INT64_MIN, INT64_MIN + 4096, -2, 0, 1, INT64_MAX}; o.set("gp", gl[g.below(6)]); } else { static const int64_t dl[] = {-1, -4096, -8192, 8192, -1000000, 1000000}; o.setu("gl", g.below(5)).set("gd", dl[g.below(6)]); } }
    if (g.chance(0.3)) op("clear").set("twice", (int64_t)g.below(2));
    return p;
  }
};

struct PkEngine : Engine {
  const char *name() const override { return "pktsim"; }
  Plan gen(const GenCfg &c) override { PkGen G(c); return G.make(); }
  void prepare(const Plan &p) override { for (auto *lr : p.all("link")) get_link(Recipe::from(*lr)); }
  std::vector<std::string> droppable() const override { return {"exp", "op", "var"}; }
  bool valid(const Plan &p) override { return p.count("link") >= 1; }
  std::vector<Plan> simplify(const Plan &p) override {
    std::vector<Plan> out;
    for (size_t i = 0; i < p.recs.size(); i++) {
      const Rec &r = p.recs[i];
      if (r.type == "op" && r.has("fault")) { Plan q = p; q.recs[i].erase("fault"); out.push_back(q); }
      if (r.type == "op" && r.s("kind") == "pkt" && r.i("drain", 1) != 1) { Plan q = p; q.recs[i].set("drain", 1); out.push_back(q); }
      if (r.type == "cfg" && r.i("poison") != 0) { Plan q = p; q.recs[i].set("poison", 0); out.push_back(q); }
      if (r.type == "chan" && r.i("gran") != 0) { Plan q = p; q.recs[i].set("gran", 0); out.push_back(q); }
      if (r.type == "chan" && r.i("halfrate") != 0) { Plan q = p; q.recs[i].set("halfrate", 0); out.push_back(q); }
    }
    return out;
  }
  Outcome exec(const Plan &p) override {
    PkRun R(p); Outcome o;
    try { R.run(); }
    catch (SimViolation &v) { o.violation = true; o.prop = v.prop; o.cls = v.cls; o.facts = v.facts; o.detail = v.detail; simalloc_forget_all(); }
    o.hash = R.h.h; o.nontrivial = R.nontrivial;
    return o;
  }
};
}  // namespace
Engine *make_pktsim() { return new PkEngine(); }
