#include "core.hpp"
// placeholders for engines that are not linked in (each real engine overrides its symbol)
__attribute__((weak)) Engine *make_pktsim() { return nullptr; }
__attribute__((weak)) Engine *make_encsim() { return nullptr; }
__attribute__((weak)) Engine *make_ratesim() { return nullptr; }
__attribute__((weak)) Engine *make_mtsim() { return nullptr; }
__attribute__((weak)) extern "C" void sched_edge_hook() {}
