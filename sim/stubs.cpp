#include "core.hpp"
Engine *make_pktsim() { return nullptr; }
Engine *make_encsim() { return nullptr; }
Engine *make_ratesim() { return nullptr; }
Engine *make_mtsim() { return nullptr; }
extern "C" void sched_edge_hook() {}
