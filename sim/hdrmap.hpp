// hdrmap.hpp — field maps of the three Vorbis I header packets (bit offset, width, tag of every field, per the Vorbis I specification
// section 4.2), so that transport damage can be aimed at individual fields ("every boundary value of every setup-header field", C02)
// instead of relying on blind bit flips to hit them. The walker is independent of libvorbis (it must keep working when the library's
// own unpacker is broken) and gives up quietly at the first inconsistency.
#pragma once
#include <cstdint>
#include <string>
#include <vector>

struct HdrField { size_t bit; int width; const char *tag; };

struct BitWalker {
  const std::vector<uint8_t> &d; size_t pos = 0; bool ok = true; std::vector<HdrField> *out;
  BitWalker(const std::vector<uint8_t> &data, std::vector<HdrField> *o) : d(data), out(o) {}
  uint64_t rd(int w, const char *tag) {
    if (!ok) return 0; if (w == 0) return 0;
    if (pos + (size_t)w > d.size() * 8) { ok = false; return 0; }
    uint64_t v = 0; for (int i = 0; i < w; i++) { size_t b = pos + (size_t)i; v |= (uint64_t)((d[b >> 3] >> (b & 7)) & 1) << i; }
    if (tag && out) out->push_back(HdrField{pos, w, tag});
    pos += (size_t)w; return v;
  }
};
static inline int hm_ilog(uint64_t v) { int r = 0; while (v) { r++; v >>= 1; } return r; }
static inline long hm_lookup1(long entries, long dim) { if (dim <= 0) return 0; long r = 0; for (;;) { long acc = 1; bool over = false; for (long i = 0; i < dim; i++) { if (acc > entries / (r + 1) + 1) { over = true; break; } acc *= (r + 1); } if (over || acc > entries) return r; r++; if (r > 70000) return r; } }

static inline uint64_t hm_get(const std::vector<uint8_t> &d, const HdrField &f) { uint64_t v = 0; for (int i = 0; i < f.width && i < 64; i++) { size_t b = f.bit + (size_t)i; if ((b >> 3) < d.size()) v |= (uint64_t)((d[b >> 3] >> (b & 7)) & 1) << i; } return v; }
static inline void hm_set(std::vector<uint8_t> &d, const HdrField &f, uint64_t v) { for (int i = 0; i < f.width && i < 64; i++) { size_t b = f.bit + (size_t)i; if ((b >> 3) >= d.size()) return; uint8_t m = (uint8_t)(1u << (b & 7)); if ((v >> i) & 1) d[b >> 3] |= m; else d[b >> 3] &= (uint8_t)~m; } }

static inline std::vector<HdrField> map_id_header(const std::vector<uint8_t> &p) {
  std::vector<HdrField> f; BitWalker w(p, &f); w.rd(8, "type"); for (int i = 0; i < 6; i++) w.rd(8, nullptr);
  w.rd(32, "id.version"); w.rd(8, "id.channels"); w.rd(32, "id.rate"); w.rd(32, "id.br_max"); w.rd(32, "id.br_nom"); w.rd(32, "id.br_min"); w.rd(4, "id.bs0"); w.rd(4, "id.bs1"); w.rd(1, "id.framing");
  return f;
}
static inline std::vector<HdrField> map_comment_header(const std::vector<uint8_t> &p) {
  std::vector<HdrField> f; BitWalker w(p, &f); w.rd(8, "type"); for (int i = 0; i < 6; i++) w.rd(8, nullptr);
  uint64_t vl = w.rd(32, "vc.vendor_len"); for (uint64_t i = 0; i < vl && w.ok && i < 100000; i++) w.rd(8, nullptr);
  uint64_t n = w.rd(32, "vc.count"); for (uint64_t c = 0; c < n && w.ok && c < 10000; c++) { uint64_t l = w.rd(32, "vc.len"); for (uint64_t i = 0; i < l && w.ok && i < 1000000; i++) w.rd(8, nullptr); }
  w.rd(1, "vc.framing");
  return f;
}
static inline std::vector<HdrField> map_setup_header(const std::vector<uint8_t> &p, int channels) {
  std::vector<HdrField> f; BitWalker w(p, &f); w.rd(8, "type"); for (int i = 0; i < 6; i++) w.rd(8, nullptr);
  long books = (long)w.rd(8, "books.count") + 1;
  for (long b = 0; b < books && w.ok; b++) {
    w.rd(24, "book.sync"); long dim = (long)w.rd(16, "book.dim"); long entries = (long)w.rd(24, "book.entries");
    if (w.rd(1, "book.ordered")) { w.rd(5, "book.len0"); int guard = 0; for (long i = 0; i < entries && w.ok && guard++ < 64;) { long num = (long)w.rd(hm_ilog((uint64_t)(entries - i)), "book.runlen"); i += num; } }
    else { bool sparse = w.rd(1, "book.sparse") != 0; for (long i = 0; i < entries && w.ok; i++) { if (sparse) { if (w.rd(1, i < 6 ? "book.used" : nullptr)) w.rd(5, i < 6 ? "book.len" : nullptr); } else w.rd(5, i < 6 || i == entries - 1 ? "book.len" : nullptr); } }
    long lt = (long)w.rd(4, "book.maptype");
    if (lt == 1 || lt == 2) { w.rd(32, "book.min"); w.rd(32, "book.delta"); int vb = (int)w.rd(4, "book.quantbits") + 1; w.rd(1, "book.seqp"); long qv = lt == 1 ? hm_lookup1(entries, dim) : entries * dim; for (long i = 0; i < qv && w.ok; i++) w.rd(vb, i < 3 ? "book.quant" : nullptr); }
    else if (lt != 0) { w.ok = false; }
  }
  long times = (long)w.rd(6, "times.count") + 1; for (long i = 0; i < times && w.ok; i++) w.rd(16, "time.type");
  long floors = (long)w.rd(6, "floors.count") + 1;
  for (long i = 0; i < floors && w.ok; i++) {
    long type = (long)w.rd(16, "floor.type");
    if (type == 0) { w.rd(8, "floor0.order"); w.rd(16, "floor0.rate"); w.rd(16, "floor0.barkmap"); w.rd(6, "floor0.ampbits"); w.rd(8, "floor0.ampdb"); long nb = (long)w.rd(4, "floor0.numbooks") + 1; for (long k = 0; k < nb; k++) w.rd(8, "floor0.book"); }
    else if (type == 1) {
      long parts = (long)w.rd(5, "floor1.partitions"); std::vector<long> pclass; long maxclass = -1;
      for (long k = 0; k < parts; k++) { long c = (long)w.rd(4, "floor1.partclass"); pclass.push_back(c); if (c > maxclass) maxclass = c; }
      std::vector<long> cdim((size_t)(maxclass + 1), 0);
      for (long c = 0; c <= maxclass && w.ok; c++) { cdim[(size_t)c] = (long)w.rd(3, "floor1.classdim") + 1; long sub = (long)w.rd(2, "floor1.classsubs"); if (sub) w.rd(8, "floor1.masterbook"); for (long k = 0; k < (1 << sub); k++) w.rd(8, "floor1.subbook"); }
      w.rd(2, "floor1.mult"); int rb = (int)w.rd(4, "floor1.rangebits");
      for (long k = 0; k < parts && w.ok; k++) for (long j = 0; j < cdim[(size_t)pclass[(size_t)k]]; j++) w.rd(rb, "floor1.post");
    } else w.ok = false;
  }
  long residues = (long)w.rd(6, "residues.count") + 1;
  for (long i = 0; i < residues && w.ok; i++) {
    w.rd(16, "res.type"); w.rd(24, "res.begin"); w.rd(24, "res.end"); w.rd(24, "res.grouping"); long cls = (long)w.rd(6, "res.partitions") + 1; w.rd(8, "res.groupbook");
    std::vector<int> casc; for (long c = 0; c < cls && w.ok; c++) { int lo = (int)w.rd(3, "res.cascade_lo"); int hi = 0; if (w.rd(1, "res.cascade_flag")) hi = (int)w.rd(5, "res.cascade_hi"); casc.push_back(lo | (hi << 3)); }
    for (long c = 0; c < cls && w.ok; c++) for (int j = 0; j < 8; j++) if ((casc[(size_t)c] >> j) & 1) w.rd(8, "res.book");
  }
  long maps = (long)w.rd(6, "maps.count") + 1;
  for (long i = 0; i < maps && w.ok; i++) {
    if (w.rd(16, "map.type") != 0) { w.ok = false; break; }
    long submaps = 1; if (w.rd(1, "map.submaps_flag")) submaps = (long)w.rd(4, "map.submaps") + 1;
    if (w.rd(1, "map.coupling_flag")) { long steps = (long)w.rd(8, "map.coupling_steps") + 1; int cb = hm_ilog((uint64_t)std::max(0, channels - 1)); for (long k = 0; k < steps && w.ok; k++) { w.rd(cb, "map.magnitude"); w.rd(cb, "map.angle"); } }
    w.rd(2, "map.reserved");
    if (submaps > 1) for (int c = 0; c < channels && w.ok; c++) w.rd(4, "map.chmux");
    for (long k = 0; k < submaps && w.ok; k++) { w.rd(8, "map.timesubmap"); w.rd(8, "map.floorsubmap"); w.rd(8, "map.residuesubmap"); }
  }
  long modes = (long)w.rd(6, "modes.count") + 1;
  for (long i = 0; i < modes && w.ok; i++) { w.rd(1, "mode.blockflag"); w.rd(16, "mode.windowtype"); w.rd(16, "mode.transformtype"); w.rd(8, "mode.mapping"); }
  w.rd(1, "setup.framing");
  return f;
}
