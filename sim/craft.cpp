// craft.cpp — hand-built, legal Vorbis I logical streams (Recipe::craft != 0).
//
// The bundled encoder only ever writes a small corner of what a set-up header may say: floor 1 only, residues 1 and 2 only, lattice
// (maptype 1) codebooks with dense length lists, one submap, two modes, partition sizes that are multiples of every book dimension...
// The decoder-side properties (C02: any packet sequence is processed without touching foreign memory; C11: a packet's samples depend on
// it and its predecessor only) quantify over every stream the format allows, so this generator writes the headers bit by bit from the
// Vorbis I specification (section 4.2), seeded, with every structural choice randomised inside the limits libvorbis' unpackers
// document: floor 0 and floor 1, residue 0/1/2 with arbitrary begin/end/grouping, sparse/ordered/single-entry codebooks of maptype 0/1/2
// and awkward dimensions, several submaps and coupling steps, 1..4 modes sharing mappings across block sizes. The audio packets are
// seeded random bits behind a valid packet-type bit and mode number (what they decode to is noise; the oracles compare decodes with
// decodes, never with a source signal).
#include "corpus.hpp"
#include <algorithm>
#include <cmath>

namespace {
struct BW {
  std::vector<uint8_t> d; size_t n = 0;
  void w(uint64_t v, int bits) { for (int i = 0; i < bits; i++) { if ((n >> 3) >= d.size()) d.push_back(0); if ((v >> i) & 1) d[n >> 3] |= (uint8_t)(1u << (n & 7)); n++; } }
  void str(const char *s) { while (*s) w((uint8_t)*s++, 8); }
};
int ilog(uint64_t v) { int r = 0; while (v) { r++; v >>= 1; } return r; }
long lookup1(long entries, long dim) { long r = 0; for (;;) { double acc = 1; for (long i = 0; i < dim; i++) { acc *= (double)(r + 1); if (acc > (double)entries) break; } if (acc > (double)entries) return r; r++; } }
struct Book { long dim = 1, entries = 2; int maptype = 0; };

uint32_t vfloat(Prng &g, bool allow_neg) {   // Vorbis packed float: 21-bit mantissa, 10-bit exponent biased by 788, sign in bit 31
  uint32_t mant = (uint32_t)g.below(g.chance(0.3) ? 16 : 1u << 14); int exp = 788 - (int)g.range(4, 20); if (g.chance(0.05)) exp = 788 + (int)g.below(4);
  uint32_t v = mant | ((uint32_t)exp << 21); if (allow_neg && g.chance(0.4)) v |= 0x80000000u; return v;
}

void put_book(BW &o, Prng &g, Book &b, bool phrase) {
  // shape
  if (phrase) { b.dim = g.chance(0.6) ? 1 : 2; b.entries = (long)g.range(4, 40); }
  else {
    double u = g.unit();
    if (u < 0.55) { b.dim = (long)g.range(1, 8); b.entries = (long)g.range(1, 48); }
    else if (u < 0.8) { b.dim = (long)g.range(1, 4); b.entries = (long)g.range(40, 300); }
    else if (u < 0.93) { b.dim = (long)g.range(9, 80); b.entries = (long)g.range(1, 12); }
    else { b.dim = (long)g.range(100, 3000); b.entries = (long)g.range(1, 4); }   // a vector longer than most partitions, sometimes than the block
  }
  while (ilog((uint64_t)b.dim) + ilog((uint64_t)b.entries) > 24 || b.dim * b.entries > 40000) b.dim = std::max<long>(1, b.dim / 2);
  long E = b.entries; bool sparse = !phrase && E >= 2 && g.chance(0.25); long used = sparse ? (long)g.range(1, E) : E;
  // a complete prefix code over the used entries (an under- or over-populated tree is rejected; one used entry of length 1 is the special case)
  std::vector<int> lens;
  if (used == 1) lens = {1};
  else { lens = {1, 1}; while ((long)lens.size() < used) { size_t k = (size_t)g.below(lens.size()); if (lens[k] >= 24) { k = (size_t)(std::min_element(lens.begin(), lens.end()) - lens.begin()); } int L = lens[k] + 1; lens[k] = L; lens.push_back(L); } }
  for (size_t i = lens.size(); i > 1; i--) std::swap(lens[i - 1], lens[(size_t)g.below(i)]);
  std::vector<int> len((size_t)E, 0);   // 0 = unused
  { std::vector<long> idx((size_t)E); for (long i = 0; i < E; i++) idx[(size_t)i] = i; for (long i = E; i > 1; i--) std::swap(idx[(size_t)i - 1], idx[(size_t)g.below((uint64_t)i)]); std::sort(idx.begin(), idx.begin() + used); for (long i = 0; i < used; i++) len[(size_t)idx[(size_t)i]] = lens[(size_t)i]; }
  bool ordered = !sparse && g.chance(0.25);
  o.w(0x564342, 24); o.w((uint64_t)b.dim, 16); o.w((uint64_t)E, 24);
  if (ordered) {
    std::sort(len.begin(), len.end()); o.w(1, 1); o.w((uint64_t)(len[0] - 1), 5);
    long i = 0; for (int L = len[0]; i < E; L++) { long cnt = 0; while (i + cnt < E && len[(size_t)(i + cnt)] == L) cnt++; o.w((uint64_t)cnt, ilog((uint64_t)(E - i))); i += cnt; }
  } else {
    o.w(0, 1); o.w(sparse ? 1 : 0, 1);
    for (long i = 0; i < E; i++) { if (sparse) { if (len[(size_t)i]) { o.w(1, 1); o.w((uint64_t)(len[(size_t)i] - 1), 5); } else o.w(0, 1); } else o.w((uint64_t)(len[(size_t)i] - 1), 5); }
  }
  b.maptype = phrase ? (g.chance(0.7) ? 0 : 1) : (g.chance(0.12) ? 0 : g.chance(0.7) ? 1 : 2);
  if (b.maptype == 2 && b.dim * E > 6000) b.maptype = 1;
  o.w((uint64_t)b.maptype, 4);
  if (b.maptype) {
    o.w(vfloat(g, true), 32); o.w(vfloat(g, false), 32); int qb = (int)g.range(1, g.chance(0.8) ? 5 : 16); o.w((uint64_t)(qb - 1), 4); o.w(g.chance(0.2) ? 1 : 0, 1);
    long qv = b.maptype == 1 ? lookup1(E, b.dim) : E * b.dim;
    for (long i = 0; i < qv; i++) o.w(g.below(1ull << qb), qb);
  }
}
}  // namespace

void craft_link(Link &l) {
  const Recipe &r = l.r; Prng g(mix64(mix64(r.seed, 0xC4AF7), (uint64_t)r.craft));
  int ch = std::max(1, std::min(r.ch, 8));
  int b0 = (int)g.range(6, 9), b1 = std::min(11, b0 + (int)g.below(4)); if (g.chance(0.15)) b1 = b0;
  { BW o; o.w(1, 8); o.str("vorbis"); o.w(0, 32); o.w((uint64_t)ch, 8); o.w((uint64_t)std::max<long>(1, r.rate), 32); o.w(0, 32); o.w(0, 32); o.w(0, 32); o.w((uint64_t)b0, 4); o.w((uint64_t)b1, 4); o.w(1, 1);
    Pkt p; p.data = o.d; p.bos = true; p.granule = 0; p.packetno = 0; l.hdr.push_back(p); }
  { BW o; o.w(3, 8); o.str("vorbis"); o.w(5, 32); o.str("craft"); int nc = std::max(0, std::min(r.ncomm, 3)); o.w((uint64_t)nc, 32); for (int i = 0; i < nc; i++) { std::string c = fmt("K%d=v%d", i, (int)g.below(100)); o.w(c.size(), 32); o.str(c.c_str()); } o.w(1, 1);
    Pkt p; p.data = o.d; p.granule = 0; p.packetno = 1; l.hdr.push_back(p); }
  // ---- set-up header
  BW o; o.w(5, 8); o.str("vorbis");
  int nb = (int)g.range(2, 9); std::vector<Book> books((size_t)nb);
  o.w((uint64_t)(nb - 1), 8);
  for (int i = 0; i < nb; i++) put_book(o, g, books[(size_t)i], i == 0);
  std::vector<int> valued; for (int i = 0; i < nb; i++) if (books[(size_t)i].maptype) valued.push_back(i);
  if (valued.empty()) { l.ok = false; return; }
  auto anybook = [&]() { return (int)g.below((uint64_t)nb); };
  auto valbook = [&]() { return valued[(size_t)g.below(valued.size())]; };
  o.w(0, 6); o.w(0, 16);   // one time-domain transform, type 0
  int nf = (int)g.range(1, 3); o.w((uint64_t)(nf - 1), 6);
  for (int f = 0; f < nf; f++) {
    if (g.chance(0.3)) {   // floor 0 (LSP)
      o.w(0, 16); o.w(g.range(1, g.chance(0.8) ? 20 : 255), 8); o.w(g.range(1, 65535), 16); o.w(g.chance(0.7) ? g.range(8, 512) : g.range(1, 65535), 16); o.w(g.range(1, 63), 6); o.w(g.range(1, 255), 8);
      int n = (int)g.range(1, 4); o.w((uint64_t)(n - 1), 4); for (int k = 0; k < n; k++) o.w((uint64_t)valbook(), 8);
    } else {   // floor 1
      o.w(1, 16); int parts = (int)g.range(0, 6); int ncls = (int)g.range(1, 4); std::vector<int> pc((size_t)parts); int maxc = -1;
      o.w((uint64_t)parts, 5); for (int k = 0; k < parts; k++) { pc[(size_t)k] = (int)g.below((uint64_t)ncls); maxc = std::max(maxc, pc[(size_t)k]); o.w((uint64_t)pc[(size_t)k], 4); }
      std::vector<int> cdim((size_t)(maxc + 1), 1);
      for (int c = 0; c <= maxc; c++) { cdim[(size_t)c] = (int)g.range(1, 8); int subs = (int)g.below(4); o.w((uint64_t)(cdim[(size_t)c] - 1), 3); o.w((uint64_t)subs, 2); if (subs) o.w((uint64_t)anybook(), 8);
        for (int k = 0; k < (1 << subs); k++) o.w(g.chance(0.25) ? 0 : (uint64_t)(anybook() + 1), 8); }
      int count = 0; for (int k = 0; k < parts; k++) count += cdim[(size_t)pc[(size_t)k]];
      while (count > 60) { l.ok = false; return; }
      int rb = std::max(ilog((uint64_t)count + 2), (int)g.range(3, 11)); rb = std::min(rb, 15);
      o.w(g.below(4), 2); o.w((uint64_t)rb, 4);
      std::vector<long> posts; while ((int)posts.size() < count) { long v = (long)g.range(1, (1 << rb) - 1); if (std::find(posts.begin(), posts.end(), v) == posts.end()) posts.push_back(v); }
      for (long v : posts) o.w((uint64_t)v, rb);
    }
  }
  long bs0 = 1L << b0, bs1 = 1L << b1;
  int nr = (int)g.range(1, 3); o.w((uint64_t)(nr - 1), 6);
  for (int x = 0; x < nr; x++) {
    int type = (int)g.below(3); long begin = g.chance(0.6) ? 0 : (long)g.below((uint64_t)bs1); long end = begin + (long)g.below((uint64_t)(2 * bs1 * (type == 2 ? ch : 1)) + 1); if (g.chance(0.05)) end = 0xffffff;
    if (end < begin) end = begin;
    long grouping = g.chance(0.5) ? (1L << g.below(7)) : (long)g.range(1, g.chance(0.9) ? 70 : 5000);
    // the classification (phrase) book must offer partitions^dim entries
    int gb = 0; int parts = 1;
    { std::vector<std::pair<int, int>> ok; for (int i = 0; i < nb; i++) { const Book &b = books[(size_t)i]; if (b.dim > 6) continue; for (int pn = 1; pn <= 16; pn++) { double pv = pow((double)pn, (double)b.dim); if (pv <= (double)b.entries) ok.emplace_back(i, pn); } }
      if (ok.empty()) { l.ok = false; return; } auto pr = ok[(size_t)g.below(ok.size())]; if (g.chance(0.6)) for (auto &q : ok) if (q.second > pr.second && g.chance(0.5)) pr = q; gb = pr.first; parts = pr.second; }
    o.w((uint64_t)type, 16); o.w((uint64_t)begin, 24); o.w((uint64_t)end, 24); o.w((uint64_t)(grouping - 1), 24); o.w((uint64_t)(parts - 1), 6); o.w((uint64_t)gb, 8);
    std::vector<int> casc((size_t)parts);
    for (int c = 0; c < parts; c++) { int bits = 0; int ns = g.chance(0.2) ? 0 : (int)g.range(1, 3); for (int s = 0; s < ns; s++) bits |= 1 << g.below(8); casc[(size_t)c] = bits; o.w((uint64_t)(bits & 7), 3); if (bits >> 3) { o.w(1, 1); o.w((uint64_t)(bits >> 3), 5); } else o.w(0, 1); }
    for (int c = 0; c < parts; c++) for (int s = 0; s < 8; s++) if ((casc[(size_t)c] >> s) & 1) o.w((uint64_t)valbook(), 8);
  }
  int nm = (int)g.range(1, 3); o.w((uint64_t)(nm - 1), 6);
  for (int m = 0; m < nm; m++) {
    o.w(0, 16); int subs = (ch > 1 && g.chance(0.4)) ? (int)g.range(2, std::min(ch, 4)) : 1;
    if (subs > 1) { o.w(1, 1); o.w((uint64_t)(subs - 1), 4); } else o.w(0, 1);
    if (ch > 1 && g.chance(0.6)) { int steps = (int)g.range(1, std::min(ch - 1 + (ch > 2 ? 2 : 0), 6)); o.w(1, 1); o.w((uint64_t)(steps - 1), 8); int cb = ilog((uint64_t)(ch - 1));
      for (int s = 0; s < steps; s++) { int mag = (int)g.below((uint64_t)ch), ang = (int)g.below((uint64_t)ch); if (ang == mag) ang = (mag + 1) % ch; o.w((uint64_t)mag, cb); o.w((uint64_t)ang, cb); } } else o.w(0, 1);
    o.w(0, 2);
    if (subs > 1) for (int c = 0; c < ch; c++) o.w(g.below((uint64_t)subs), 4);
    for (int s = 0; s < subs; s++) { o.w(0, 8); o.w(g.below((uint64_t)nf), 8); o.w(g.below((uint64_t)nr), 8); }
  }
  int nmodes = (int)g.range(1, 4); std::vector<int> mflag((size_t)nmodes); o.w((uint64_t)(nmodes - 1), 6);
  for (int m = 0; m < nmodes; m++) { mflag[(size_t)m] = (int)g.below(2); if (m == 0 && nmodes > 1) mflag[0] = 0; o.w((uint64_t)mflag[(size_t)m], 1); o.w(0, 16); o.w(0, 16); o.w(g.below((uint64_t)nm), 8); }
  o.w(1, 1);
  { Pkt p; p.data = o.d; p.granule = 0; p.packetno = 2; l.hdr.push_back(p); }
  l.bs0 = bs0; l.bs1 = bs1;
  // ---- audio: valid type bit and mode number, then seeded bits
  int64_t np = std::max<int64_t>(1, std::min<int64_t>(r.n, 400)); int64_t pos = 0; long prev = 0; int mb = ilog((uint64_t)(nmodes - 1));
  for (int64_t k = 0; k < np; k++) {
    BW a; a.w(0, 1); int m = (int)g.below((uint64_t)nmodes); a.w((uint64_t)m, mb); long bs = mflag[(size_t)m] ? bs1 : bs0; if (mflag[(size_t)m]) { a.w(g.below(2), 1); a.w(g.below(2), 1); }
    double u = g.unit(); int bytes = u < 0.1 ? 0 : u < 0.5 ? (int)g.range(1, 24) : u < 0.9 ? (int)g.range(24, 200) : (int)g.range(200, 1200);
    double p1 = g.chance(0.3) ? 0.15 : 0.5;   // sparse bit patterns keep codeword walks short and the floor "used" flag varied
    for (int i = 0; i < bytes; i++) { uint8_t v = 0; for (int b = 0; b < 8; b++) if (g.unit() < p1) v |= (uint8_t)(1u << b); a.w(v, 8); }
    Pkt p; p.data = a.d; if (p.data.empty()) p.data.push_back(0); p.bs = bs; if (k) pos += (prev + bs) / 4; p.granule = pos; p.packetno = 3 + k; p.eos = (k + 1 == np); prev = bs; l.audio.push_back(std::move(p));
  }
  l.ok = true;
}
