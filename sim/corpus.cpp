// corpus.cpp — see corpus.hpp
#include "corpus.hpp"
#include "hdrmap.hpp"
#include <cerrno>
#include <fcntl.h>
#include <sys/resource.h>
#include <sys/wait.h>
#include <unistd.h>

std::string Recipe::key() const {
  return fmt("ch=%d rate=%ld q=%.4f mode=%d nom=%ld n=%lld sig=%d seed=%llu nc=%d bs64=%d cut=%d mute=%d trim=%d tk=%d m3=%d cr=%d", ch, rate, q, mode, nominal, (long long)n, sig, (unsigned long long)seed, ncomm, bs64, cut, mute, trim, tk, modes3, craft);
}
void Recipe::to(Rec &r) const {
  r.set("ch", ch).set("rate", rate).setf("q", q).set("mode", mode).set("nom", nominal).set("n", n).set("sig", sig).setu("seed", seed).set("nc", ncomm).set("bs64", bs64); if (cut) r.set("cut", cut); if (mute) r.set("mute", mute); if (trim) r.set("trim", trim).set("tk", tk); if (modes3) r.set("modes3", modes3); if (craft) r.set("craft", craft);
}
Recipe Recipe::from(const Rec &r) {
  Recipe x; x.ch = (int)r.i("ch", 2); x.rate = r.i("rate", 44100); x.q = r.f("q", 0.4); x.mode = (int)r.i("mode", 0); x.nominal = r.i("nom", 0);
  x.n = r.i("n", 20000); x.sig = (int)r.i("sig", 0); x.seed = r.u("seed", 1); x.ncomm = (int)r.i("nc", 2); x.bs64 = (int)r.i("bs64", 0); x.cut = (int)r.i("cut", 0); x.mute = (int)r.i("mute", 0); x.trim = (int)r.i("trim", 0); x.tk = (int)r.i("tk", 3); x.modes3 = (int)r.i("modes3", 0); x.craft = (int)r.i("craft", 0);
  return x;
}

// ------------------------------------------------------------------ signals
namespace {
struct SigGen {
  Recipe r; Prng rng; std::vector<double> f, a, ph; int64_t pos = 0; double amp;
  explicit SigGen(const Recipe &rr) : r(rr), rng(mix64(rr.seed, 0x5167)) {
    int nt = 2 + (int)rng.below(4);
    for (int i = 0; i < nt * r.ch; i++) { f.push_back(60.0 + rng.unit() * (r.rate * 0.35)); a.push_back(0.05 + rng.unit() * 0.25); ph.push_back(rng.unit() * 6.28318); }
    amp = (r.sig == 4) ? 3.5 : 1.0;
  }
  float sample(int c, int64_t t) {
    int nt = (int)f.size() / r.ch; double v = 0;
    if (c < 31 && ((r.mute >> c) & 1)) return 0.f;
    switch (r.sig) {
      case 1: return 0.f;                                   // silence
      case 6: if (t >= r.n / 5 && t < r.n - r.n / 5) return 0.f; break;   // tone, a long stretch of digital silence (packets of a few bytes: one page spans many seconds), tone
      case 5: {                                             // low-level noise only
        uint64_t x = mix64(r.seed + c, (uint64_t)t); return (float)(((x >> 40) / 8388608.0 - 1.0) * 0.02);
      }
      default: break;
    }
    for (int i = 0; i < nt; i++) v += a[c * nt + i] * sin(ph[c * nt + i] + 6.283185307179586 * f[c * nt + i] * (double)t / r.rate);
    uint64_t x = mix64(r.seed * 31 + c, (uint64_t)t); double nz = ((x >> 40) / 8388608.0 - 1.0);
    if (r.sig == 0 || r.sig == 4) v += 0.03 * nz;
    if (r.sig == 2) {                                       // click train: forces short blocks
      int64_t period = r.rate / 7 + 13; if (t % period < 6) v += 0.9 * ((t % period) & 1 ? -1 : 1);
    }
    if (r.sig == 3) {                                       // alternating silence / full-scale noise bursts
      int64_t period = r.rate / 3 + 1; if ((t / period) & 1) v = 0.95 * nz; else v = 0;
    }
    return (float)(v * amp);
  }
};

ogg_packet to_op(const Pkt &p) {
  ogg_packet op; op.packet = const_cast<unsigned char *>(p.data.data()); op.bytes = (long)p.data.size();
  op.b_o_s = p.bos; op.e_o_s = p.eos; op.granulepos = p.granule; op.packetno = p.packetno; return op;
}
Pkt from_op(const ogg_packet &op) {
  Pkt p; p.data.assign(op.packet, op.packet + op.bytes); p.granule = op.granulepos; p.bos = op.b_o_s != 0; p.eos = op.e_o_s != 0; p.packetno = op.packetno; return p;
}
std::map<std::string, std::shared_ptr<Link>> g_cache;
}  // namespace
ogg_packet pkt_to_op(const Pkt &p) { return to_op(p); }
Pkt pkt_from_op(const ogg_packet &op) { return from_op(op); }
Signal::Signal(const Recipe &r) : impl(new SigGen(r)) {}
Signal::~Signal() { delete (SigGen *)impl; }
float Signal::at(int c, int64_t t) { return ((SigGen *)impl)->sample(c, t); }

int decode_packets(const std::vector<Pkt> &hdr, const std::vector<Pkt> &audio, int halfrate,
                   std::vector<std::vector<float>> &pcm, std::vector<int> *chunks) {
  vorbis_info vi; vorbis_comment vc; vorbis_dsp_state vd; vorbis_block vb;
  vorbis_info_init(&vi); vorbis_comment_init(&vc);
  int err = 0;
  for (size_t i = 0; i < hdr.size() && i < 3; i++) { ogg_packet op = to_op(hdr[i]); int r = vorbis_synthesis_headerin(&vi, &vc, &op); if (r < 0) { err = r; break; } }
  if (err || hdr.size() < 3) { vorbis_comment_clear(&vc); vorbis_info_clear(&vi); return err ? err : -1; }
  if (halfrate && vorbis_synthesis_halfrate(&vi, 1)) { vorbis_comment_clear(&vc); vorbis_info_clear(&vi); return -2; }
  if (vorbis_synthesis_init(&vd, &vi)) { vorbis_comment_clear(&vc); vorbis_info_clear(&vi); return -3; }
  vorbis_block_init(&vd, &vb);
  pcm.assign(vi.channels, {});
  for (auto &p : audio) {
    ogg_packet op = to_op(p);
    int r = vorbis_synthesis(&vb, &op);
    if (r == 0) vorbis_synthesis_blockin(&vd, &vb); else if (!err) err = r;
    float **out; int n, got = 0;
    while ((n = vorbis_synthesis_pcmout(&vd, &out)) > 0) {
      for (int c = 0; c < vi.channels; c++) pcm[c].insert(pcm[c].end(), out[c], out[c] + n);
      vorbis_synthesis_read(&vd, n); got += n;
    }
    if (chunks) chunks->push_back(got);
  }
  vorbis_block_clear(&vb); vorbis_dsp_clear(&vd); vorbis_comment_clear(&vc); vorbis_info_clear(&vi);
  return err;
}

static void encode_link(Link &l) {
  const Recipe &r = l.r;
  vorbis_info vi; vorbis_info_init(&vi);
  int ret;
  switch (r.mode) {
    case 0: ret = vorbis_encode_init_vbr(&vi, r.ch, r.rate, (float)r.q); break;
    case 1: ret = vorbis_encode_init(&vi, r.ch, r.rate, -1, r.nominal, -1); break;
    case 2: ret = vorbis_encode_init(&vi, r.ch, r.rate, r.nominal + r.nominal / 3, r.nominal, r.nominal - r.nominal / 3); break;
    default: ret = vorbis_encode_init(&vi, r.ch, r.rate, r.nominal, r.nominal, r.nominal); break;
  }
  if (ret) { vorbis_info_clear(&vi); l.ok = false; return; }
  vorbis_comment vc; vorbis_comment_init(&vc);
  Prng cr(mix64(r.seed, 0xC0));
  for (int i = 0; i < r.ncomm; i++) {
    std::string tag = fmt("TAG%d", (int)cr.below(4)), val;
    int len = (int)cr.below(24); for (int k = 0; k < len; k++) val += (char)('a' + cr.below(26));
    vorbis_comment_add_tag(&vc, tag.c_str(), val.c_str());
  }
  vorbis_dsp_state vd; vorbis_block vb;
  vorbis_analysis_init(&vd, &vi); vorbis_block_init(&vd, &vb);
  ogg_packet h0, h1, h2; vorbis_analysis_headerout(&vd, &vc, &h0, &h1, &h2);
  l.hdr = {from_op(h0), from_op(h1), from_op(h2)};
  l.bs0 = vorbis_info_blocksize(&vi, 0); l.bs1 = vorbis_info_blocksize(&vi, 1);
  SigGen sg(r);
  int64_t done = 0; bool ended = false;
  while (!ended) {
    int64_t k = std::min<int64_t>(r.chunk, r.n - done);
    if (k > 0) {
      float **buf = vorbis_analysis_buffer(&vd, (int)k);
      for (int c = 0; c < r.ch; c++) for (int64_t i = 0; i < k; i++) buf[c][i] = sg.sample(c, done + i);
      vorbis_analysis_wrote(&vd, (int)k); done += k;
    } else { vorbis_analysis_wrote(&vd, 0); ended = true; }
    while (vorbis_analysis_blockout(&vd, &vb) == 1) {
      vorbis_analysis(&vb, NULL); vorbis_bitrate_addblock(&vb);
      ogg_packet op;
      while (vorbis_bitrate_flushpacket(&vd, &op)) { Pkt p = from_op(op); p.bs = vorbis_packet_blocksize(&vi, &op); l.audio.push_back(std::move(p)); }
    }
  }
  vorbis_block_clear(&vb); vorbis_dsp_clear(&vd); vorbis_comment_clear(&vc); vorbis_info_clear(&vi);
  if (r.modes3) {
    // bit-level rewrite (Vorbis packs LSB first): setup header gets modes.count+1 and a third mode entry equal to the second; every audio
    // packet's mode field grows from one bit to two, and every other long-block packet selects mode 2 instead of mode 1
    auto tobits = [](const std::vector<uint8_t> &d) { std::vector<uint8_t> b(d.size() * 8); for (size_t i = 0; i < b.size(); i++) b[i] = (d[i >> 3] >> (i & 7)) & 1; return b; };
    auto tobytes = [](const std::vector<uint8_t> &b) { std::vector<uint8_t> d((b.size() + 7) / 8, 0); for (size_t i = 0; i < b.size(); i++) if (b[i]) d[i >> 3] |= (uint8_t)(1u << (i & 7)); return d; };
    std::vector<HdrField> f = map_setup_header(l.hdr[2].data, r.ch); const HdrField *cnt = nullptr, *fr = nullptr; std::vector<const HdrField *> mm;
    for (auto &x : f) { if (!strcmp(x.tag, "modes.count")) cnt = &x; if (!strcmp(x.tag, "setup.framing")) fr = &x; if (!strcmp(x.tag, "mode.blockflag")) mm.push_back(&x); }
    if (!cnt || !fr || mm.size() != 2 || hm_get(l.hdr[2].data, *cnt) != 1 || hm_get(l.hdr[2].data, *mm[0]) != 0 || hm_get(l.hdr[2].data, *mm[1]) != 1) { l.ok = false; return; }
    std::vector<uint8_t> hb = tobits(l.hdr[2].data); hb.resize(fr->bit);                       // everything before the framing bit
    std::vector<uint8_t> m2(hb.begin() + (long)mm[1]->bit, hb.begin() + (long)mm[1]->bit + 41); // blockflag(1) windowtype(16) transformtype(16) mapping(8)
    std::vector<uint8_t> m1(hb.begin() + (long)mm[0]->bit, hb.begin() + (long)mm[0]->bit + 41);
    bool cross = r.modes3 == 2;                                                                // four modes: 2 = short blocks on the long mode's mapping, 3 = long blocks on the short mode's mapping
    if (cross) { std::vector<uint8_t> a = m2, b = m1; a[0] = 0; b[0] = 1; m2 = a; m1 = b; }      // (legal: modes, mappings, floors and residues may be shared freely; the audio of relabelled packets is noise, which no decoder-side oracle minds)
    hb[cnt->bit] = cross ? 1 : 0; hb[cnt->bit + 1] = 1;                                        // modes.count field: 1 -> 2 (three modes) or 3 (four)
    hb.insert(hb.end(), m2.begin(), m2.end()); if (cross) hb.insert(hb.end(), m1.begin(), m1.end()); hb.push_back(1);   // new modes, framing bit
    l.hdr[2].data = tobytes(hb);
    int nlong = 0, nshort = 0;
    for (auto &p : l.audio) { std::vector<uint8_t> b = tobits(p.data); if (b.size() < 2) continue; size_t used = b.size(); while (used > 2 && !b[used - 1]) used--;   // trailing zero bits are padding
      b.resize(used); int mode = b[1]; b.insert(b.begin() + 2, 0);                              // type(1) mode(now 2 bits)
      if (!cross) { if (mode == 1 && (nlong++ & 1)) { b[1] = 0; b[2] = 1; } }                     // mode 2 == mode 1
      else if (mode == 1) { if (nlong++ % 3 == 2) { b[1] = 1; b[2] = 1; } }                       // mode 3: long block, short mapping
      else if (nshort++ % 3 == 1) { b[1] = 0; b[2] = 1; }                                       // mode 2: short block, long mapping
      p.data = tobytes(b); }
  }
  if (r.cut > 0) { size_t c = std::min<size_t>((size_t)r.cut, l.audio.size() > 3 ? l.audio.size() - 3 : 0); l.audio.erase(l.audio.begin(), l.audio.begin() + c); }
  if (r.trim > 0) {
    size_t tk = (size_t)std::max(2, r.tk);
    if (l.audio.size() < tk + 3 || l.audio[tk - 1].granule < 2) { l.ok = false; return; }
    int64_t T = std::min<int64_t>(r.trim, l.audio[tk - 1].granule - 1); if (!(r.trim & 1)) T &= ~(int64_t)1;   // an even request stays even (half-rate positions are only well defined on an even grid)
    if (T < 1) { l.ok = false; return; }
    for (size_t j = 0; j < l.audio.size(); j++) { bool fin = (j % tk) == tk - 1 || j + 1 == l.audio.size(); if (fin) l.audio[j].granule = std::max<int64_t>(0, l.audio[j].granule - T); else l.audio[j].granule = -1; }
  }
  if (r.bs64) {
    // 64-sample short blocks (C20 refusal clause; the bundled encoder cannot emit them): rewrite the short block size in the ID header.
    // That yields a *consistent* stream only if no audio packet other than the mandatory first one is a short block; then the
    // stream merely looks like one whose first page starts (256-64)/4.. samples late, which the format allows. Otherwise: reject.
    bool all_long = l.audio.size() >= 2; for (size_t i = 1; i < l.audio.size(); i++) if (l.audio[i].bs != l.bs1) all_long = false;
    if (!all_long || l.hdr[0].data.size() < 30) { l.ok = false; return; }
    l.hdr[0].data[28] = (uint8_t)((l.hdr[0].data[28] & 0xF0) | 6); l.bs0 = 64;
  }
  l.ok = true;
}

extern "C" void __real__exit(int) __attribute__((noreturn));
bool g_in_exec = false, g_ref_crash_seen = false; Recipe g_ref_crash_recipe;
static void ref_crashed(Link &l) {
  g_ref_crash_seen = true; g_ref_crash_recipe = l.r;
  if (g_in_exec) { std::vector<std::vector<float>> pcm; std::vector<int> ch; vorbis_info vi; vorbis_comment vc; vorbis_info_init(&vi); vorbis_comment_init(&vc);   // again, unguarded: the failure belongs to this run
    for (int i = 0; i < 3 && i < (int)l.hdr.size(); i++) { ogg_packet op = to_op(l.hdr[(size_t)i]); vorbis_synthesis_headerin(&vi, &vc, &op); } vorbis_comment_clear(&vc); vorbis_info_clear(&vi);
    decode_packets(l.hdr, l.audio, 0, pcm, &ch); }
}
std::string g_exec_prop;
// A stream the encoder has just produced (possibly with one of the legal rewrites) that the packet-level decoder then refuses: before this was a
// verdict the generators quietly avoided such links, so a change that made the decoder refuse a whole class of legal streams (say, every stream
// without user comments) removed its own evidence from the corpus. Handled like a crashing reference decode: the run being generated is replaced
// by a plan naming only this link, and inside an execution the refusal is the violation.
static void ref_rejected(Link &l) {
  g_ref_crash_seen = true; g_ref_crash_recipe = l.r;
  if (g_in_exec) { SimViolation v; v.prop = g_exec_prop; v.cls = g_exec_prop + "/corpus/decoder-refused-encoder-output"; v.detail = fmt("the packet-level decode of a stream the encoder produced failed with %d (%s)", l.ref_err, l.r.key().c_str()); v.facts = {{"err", std::to_string(l.ref_err)}}; throw v; }
}
static bool probe_ref(const Link &l) {
  fflush(stdout); fflush(stderr);
  pid_t pid = fork();
  if (pid < 0) return true;
  if (pid == 0) {
    int nul = open("/dev/null", O_WRONLY); if (nul >= 0) { dup2(nul, 2); dup2(nul, 1); }
    struct rlimit rl = {30, 30}; setrlimit(RLIMIT_CPU, &rl);
    vorbis_info vi; vorbis_comment vc; vorbis_info_init(&vi); vorbis_comment_init(&vc);
    for (int i = 0; i < 3 && i < (int)l.hdr.size(); i++) { ogg_packet op = to_op(l.hdr[(size_t)i]); vorbis_synthesis_headerin(&vi, &vc, &op); }
    vorbis_comment_clear(&vc); vorbis_info_clear(&vi);
    std::vector<std::vector<float>> pcm; std::vector<int> ch; decode_packets(l.hdr, l.audio, 0, pcm, &ch);
    __real__exit(0);
  }
  int st = 0; while (waitpid(pid, &st, 0) < 0 && errno == EINTR) {}
  return WIFEXITED(st) && WEXITSTATUS(st) == 0;
}
std::shared_ptr<Link> get_link(const Recipe &r) {
  std::string k = r.key();
  auto it = g_cache.find(k);
  if (it != g_cache.end()) { if (it->second->ref_crash) ref_crashed(*it->second); if (it->second->ref_reject) ref_rejected(*it->second); return it->second; }
  bool was = g_sim.alloc_active; g_sim.alloc_active = false;   // corpus production is outside the ledger window
  auto l = std::make_shared<Link>(); l->r = r;
  if (r.craft) craft_link(*l); else encode_link(*l);
  if (l->ok && !probe_ref(*l)) { l->ref_crash = true; l->ref_err = -99; g_stats.inc("corpus.reference_decode_died_in_probe"); }
  if (l->ok && !l->ref_crash) {
    l->ref_err = decode_packets(l->hdr, l->audio, 0, l->pcm, &l->chunk);
    l->len = l->pcm.empty() ? 0 : (int64_t)l->pcm[0].size();
    // comments as the decoder sees them
    vorbis_info vi; vorbis_comment vc; vorbis_info_init(&vi); vorbis_comment_init(&vc);
    for (int i = 0; i < 3; i++) { ogg_packet op = to_op(l->hdr[i]); vorbis_synthesis_headerin(&vi, &vc, &op); }
    l->vendor = vc.vendor ? vc.vendor : ""; for (int i = 0; i < vc.comments; i++) l->comments.emplace_back(vc.user_comments[i], vc.comment_lengths[i]);
    vorbis_comment_clear(&vc); vorbis_info_clear(&vi);
  }
  { static const bool trace = getenv("VERIF_TRACE_CRAFT") != nullptr; if (trace && r.craft) fprintf(stderr, "CRAFT seed=%llu ch=%d ok=%d ref_err=%d len=%lld packets=%zu bs=%ld/%ld setup_bytes=%zu\n", (unsigned long long)r.seed, r.ch, (int)l->ok, l->ref_err, (long long)l->len, l->audio.size(), l->bs0, l->bs1, l->hdr.size() > 2 ? l->hdr[2].data.size() : 0); }
  g_sim.alloc_active = was;
  // bound the per-worker footprint (16 workers under ASan share the machine): drop the cache when it holds too many bytes
  static size_t cache_bytes = 0;
  size_t lb = 0; for (auto &c : l->pcm) lb += c.size() * sizeof(float); for (auto &pk : l->audio) lb += pk.data.size() + 64; lb = lb * 2 + 4096;
  if (g_cache.size() > 400 || cache_bytes + lb > (size_t)160 * 1024 * 1024) { g_cache.clear(); cache_bytes = 0; g_stats.inc("corpus.cache_flushes"); }
  cache_bytes += lb;
  g_cache[k] = l;
  g_stats.inc("corpus.links_encoded");
  if (l->ref_crash) ref_crashed(*l);
  if (l->ok && !l->ref_crash && !r.craft && l->ref_err != 0) { l->ref_reject = true; g_stats.inc("corpus.decoder_refused_encoder_output"); ref_rejected(*l); }
  return l;
}
void ensure_half(Link &l) {
  if (l.len_half >= 0) return;
  bool was = g_sim.alloc_active; g_sim.alloc_active = false;
  int e = decode_packets(l.hdr, l.audio, 1, l.pcm_half, nullptr);
  l.half_ok = (e == 0); l.len_half = l.pcm_half.empty() ? 0 : (int64_t)l.pcm_half[0].size();
  g_sim.alloc_active = was;
}

// ------------------------------------------------------------------ page writer
void reseal_page(uint8_t *page, size_t len) {
  ogg_page og; int hl = 27 + page[26];
  og.header = page; og.header_len = hl; og.body = page + hl; og.body_len = (long)len - hl;
  ogg_page_checksum_set(&og);
}
void build_page(std::vector<uint8_t> &out, long serial, long pageno, int64_t granule, bool cont, bool bos, bool eos,
                const std::vector<uint8_t> &lacing, const uint8_t *body, size_t bodylen) {
  size_t start = out.size();
  out.insert(out.end(), {'O', 'g', 'g', 'S', 0});
  out.push_back((uint8_t)((cont ? 1 : 0) | (bos ? 2 : 0) | (eos ? 4 : 0)));
  uint64_t g = (uint64_t)granule; for (int i = 0; i < 8; i++) out.push_back((uint8_t)(g >> (8 * i)));
  uint32_t s = (uint32_t)serial; for (int i = 0; i < 4; i++) out.push_back((uint8_t)(s >> (8 * i)));
  uint32_t pn = (uint32_t)pageno; for (int i = 0; i < 4; i++) out.push_back((uint8_t)(pn >> (8 * i)));
  for (int i = 0; i < 4; i++) out.push_back(0);
  out.push_back((uint8_t)lacing.size());
  out.insert(out.end(), lacing.begin(), lacing.end());
  out.insert(out.end(), body, body + bodylen);
  reseal_page(out.data() + start, out.size() - start);
}

namespace {
struct PageW {  // writes one logical stream's pages into separate buffers so they can be interleaved
  long serial; long pageno = 0; std::vector<std::vector<uint8_t>> pages;
  // section: packets that must start on a fresh page and end with a page flush
  void section(const std::vector<Pkt> &pk, size_t from, size_t to, const MuxPolicy &mp, bool first_is_bos, bool last_is_eos) {
    std::vector<uint8_t> lacing, body; int64_t gran = -1; bool cont = false; int completed = 0; bool any = false;
    auto flush = [&](bool eos, bool next_cont) {
      std::vector<uint8_t> pg; build_page(pg, serial, pageno, gran, cont, first_is_bos && pageno == 0, eos, lacing, body.data(), body.size());
      pages.push_back(std::move(pg)); pageno++; lacing.clear(); body.clear(); gran = -1; completed = 0; cont = next_cont; any = false;
    };
    int seglimit = 255; size_t bytelimit = SIZE_MAX; int pktlimit = INT32_MAX;
    if (mp.policy == 1) pktlimit = std::max(1, mp.k);
    if (mp.policy == 2) pktlimit = 1;
    if (mp.policy == 4) seglimit = std::max(1, std::min(255, mp.k));
    if (mp.policy == 5) bytelimit = (size_t)std::max(1, mp.k);
    for (size_t i = from; i < to; i++) {
      const Pkt &p = pk[i]; size_t n = p.data.size(), off = 0;
      bool lastpkt = (i + 1 == to);
      for (;;) {
        size_t seg = std::min<size_t>(255, n - off);
        if ((int)lacing.size() >= seglimit || (any && body.size() + seg > bytelimit)) flush(false, off > 0);
        lacing.push_back((uint8_t)seg); body.insert(body.end(), p.data.begin() + off, p.data.begin() + off + seg); off += seg; any = true;
        if (seg < 255) break;
      }
      gran = p.granule; completed++;
      if (lastpkt) flush(last_is_eos, false);
      else if (completed >= pktlimit) flush(false, false);
    }
  }
};
}  // namespace

bool parse_pages(const std::vector<uint8_t> &b, std::vector<PageInfo> &out) {
  size_t o = 0; out.clear();
  while (o < b.size()) {
    if (o + 27 > b.size() || memcmp(&b[o], "OggS", 4)) return false;
    PageInfo p; p.off = (int64_t)o; int ns = b[o + 26]; if (o + 27 + ns > b.size()) return false;
    int body = 0; for (int i = 0; i < ns; i++) { body += b[o + 27 + i]; if (b[o + 27 + i] < 255) p.completed++; }
    p.hlen = 27 + ns; p.len = p.hlen + body; if (o + p.len > b.size()) return false;
    p.cont = b[o + 5] & 1; p.bos = b[o + 5] & 2; p.eos = b[o + 5] & 4;
    uint64_t g = 0; for (int i = 0; i < 8; i++) g |= (uint64_t)b[o + 6 + i] << (8 * i); p.granule = (int64_t)g;
    uint32_t s = 0; for (int i = 0; i < 4; i++) s |= (uint32_t)b[o + 14 + i] << (8 * i); p.serial = (long)(int32_t)s;
    uint32_t pn = 0; for (int i = 0; i < 4; i++) pn |= (uint32_t)b[o + 18 + i] << (8 * i); p.pageno = pn;
    out.push_back(p); o += p.len;
  }
  return true;
}

void mux_link(PhysStream &ps, std::shared_ptr<Link> l, const MuxPolicy &mp, const std::vector<Pkt> *foreign, long foreign_serial) {
  int64_t link_start = (int64_t)ps.bytes.size();
  std::vector<std::vector<uint8_t>> ours;
  size_t n_hdr_pages = 0;
  if (mp.policy == 0) {
    ogg_stream_state os; ogg_stream_init(&os, (int)mp.serial); ogg_page og;
    auto emit = [&]() { std::vector<uint8_t> pg(og.header, og.header + og.header_len); pg.insert(pg.end(), og.body, og.body + og.body_len); ours.push_back(std::move(pg)); };
    for (int i = 0; i < 3; i++) { ogg_packet op = to_op(l->hdr[i]); op.packetno = i; ogg_stream_packetin(&os, &op); if (i == 0) while (ogg_stream_flush(&os, &og)) emit(); }
    while (ogg_stream_flush(&os, &og)) emit();
    n_hdr_pages = ours.size();
    for (size_t i = 0; i < l->audio.size(); i++) {
      ogg_packet op = to_op(l->audio[i]); op.packetno = 3 + (long)i; ogg_stream_packetin(&os, &op);
      while (ogg_stream_pageout(&os, &og)) emit();
    }
    while (ogg_stream_flush(&os, &og)) emit();
    if (l->audio.empty() && !ours.empty()) { ours.back()[5] |= 4; reseal_page(ours.back().data(), ours.back().size()); }
    ogg_stream_clear(&os);
  } else {
    PageW w; w.serial = mp.serial;
    MuxPolicy hp = mp; if (hp.policy == 1 || hp.policy == 2) hp.policy = 3;  // header packets 2 and 3 share pages unless a size limit applies
    w.section(l->hdr, 0, 1, hp, true, false);
    w.section(l->hdr, 1, 3, hp, false, l->audio.empty());
    n_hdr_pages = w.pages.size();
    if (!l->audio.empty()) w.section(l->audio, 0, l->audio.size(), mp, false, true);
    ours = std::move(w.pages);
  }
  // foreign logical stream multiplexed into this link (intact by Ogg rules: BOS pages first, ends inside the link)
  std::vector<std::vector<uint8_t>> theirs;
  if (foreign && !foreign->empty()) {
    PageW w; w.serial = foreign_serial; MuxPolicy fp; fp.policy = 2;
    w.section(*foreign, 0, 1, fp, true, false);
    if (foreign->size() > 1) w.section(*foreign, 1, foreign->size(), fp, false, true);
    theirs = std::move(w.pages);
  }
  std::vector<uint8_t> second_bos;
  if (!theirs.empty() && mp.foreign_mode == 3) { Pkt p; p.data.assign(20, 0x33); memcpy(p.data.data(), "second!", 7); p.granule = 0; std::vector<Pkt> one{p}; PageW w; w.serial = foreign_serial + 1; MuxPolicy fp; fp.policy = 2; w.section(one, 0, 1, fp, true, true); second_bos = w.pages[0]; }
  size_t ti = 0;
  for (size_t i = 0; i < ours.size(); i++) {
    if (i == n_hdr_pages) ps.data_off.push_back((int64_t)ps.bytes.size());
    bool lastp = (i + 1 == ours.size());
    if (lastp && mp.foreign_mode == 1) while (ti < theirs.size() && ti > 0) { ps.bytes.insert(ps.bytes.end(), theirs[ti].begin(), theirs[ti].end()); ti++; }
    if (i == 0 && !theirs.empty() && mp.foreign_bos_first) { ps.bytes.insert(ps.bytes.end(), theirs[0].begin(), theirs[0].end()); ti = 1; }
    ps.bytes.insert(ps.bytes.end(), ours[i].begin(), ours[i].end());
    if (i == 0 && !theirs.empty()) { if (!mp.foreign_bos_first) { ps.bytes.insert(ps.bytes.end(), theirs[0].begin(), theirs[0].end()); ti = 1; } ps.bytes.insert(ps.bytes.end(), second_bos.begin(), second_bos.end()); }
    else if (i >= n_hdr_pages && ti < theirs.size() && ti > 0 && (i % 2) == 0 && !lastp) { ps.bytes.insert(ps.bytes.end(), theirs[ti].begin(), theirs[ti].end()); ti++; }
  }
  if (ours.size() == n_hdr_pages) ps.data_off.push_back((int64_t)ps.bytes.size());
  while (ti < theirs.size() && ti > 0) { ps.bytes.insert(ps.bytes.end(), theirs[ti].begin(), theirs[ti].end()); ti++; }   // foreign_mode 2/3: the other stream outlives ours
  ps.links.push_back(l); ps.serials.push_back(mp.serial);
  if (ps.link_off.empty()) ps.link_off.push_back(link_start); else ps.link_off.back() = link_start;
  ps.link_off.push_back((int64_t)ps.bytes.size());
  parse_pages(ps.bytes, ps.pages);
  ps.max_page = 0;
  for (auto &p : ps.pages) {
    ps.max_page = std::max(ps.max_page, p.len);
    p.link = -1; for (size_t k = 0; k < ps.serials.size(); k++) if (ps.serials[k] == p.serial) { // the latest link with that serial that starts at or before the page
      if (p.off >= ps.link_off[k] && p.off < ps.link_off[k + 1]) p.link = (int)k; }
    if (p.link >= 0) p.header = p.off < ps.data_off[p.link];
  }
}
