// simfile.hpp — the data source behind ov_callbacks: in-memory bytes, seeded read-size schedule, fault plan.
#pragma once
#include "core.hpp"
#include <cerrno>

enum IoFaultKind { IOF_NONE = 0, IOF_EIO, IOF_EOF0, IOF_SHORT1, IOF_SEEKFAIL, IOF_TELLFAIL };
static inline const char *iof_name(int k) { static const char *n[] = {"none", "EIO", "EOF0", "SHORT1", "SEEKFAIL", "TELLFAIL"}; return n[k]; }
static inline int iof_parse(const std::string &s) { for (int i = 0; i < 6; i++) if (s == iof_name(i)) return i; return 0; }

struct IoFault { int kind = IOF_NONE; int ord = 0; int persist = 0; };  // ord: callback ordinal within the op; persist: 0 one-shot, n>0 n calls, -1 until heal

struct SimFile {
  const std::vector<uint8_t> *bytes = nullptr;
  int64_t pos = 0;
  bool seekable = true;
  // read-size schedule: 0 full, 1 one byte, 2 k bytes, 3 random<=k, 4 alternating 1/full
  int rdpol = 0; int rdk = 64; Prng rdrng{1};
  // fault plan for the op in progress
  std::vector<IoFault> faults; int op_cb = 0; int active_kind = IOF_NONE; int active_left = 0; bool healed = true;
  // log
  uint64_t n_read = 0, n_seek = 0, n_tell = 0, n_close = 0, n_after_close = 0, n_injected = 0, n_injected_effective = 0;
  uint64_t cb_total = 0;
  Hasher log;
  bool closed = false;
  int id = 0;
  int errno_noise = 0; Prng enrng{7};   // successful reads leave a seeded errno value behind (its value after a successful call is unspecified)
  bool read_faults_only = false;   // stdio FILE in between (ov_open over fopencookie): glibc's own position cache is undefined after a failed seek, so only read faults are injected there

  void begin_op(const std::vector<IoFault> &f) { faults = f; op_cb = 0; }
  void heal() { active_kind = IOF_NONE; active_left = 0; faults.clear(); }
  int faults_pending() const { int n = 0; for (auto &f : faults) if (f.kind != IOF_NONE && f.ord >= op_cb) n++; return n; }   // attached to this op but not reached yet

  int fault_now(bool is_read, bool is_seek, bool is_tell) {
    int ord = op_cb++;
    for (auto &f : faults) if (f.ord == ord && f.kind != IOF_NONE) { active_kind = f.kind; active_left = f.persist == 0 ? 1 : f.persist; }
    if (active_kind == IOF_NONE) return IOF_NONE;
    if (read_faults_only && !is_read) return IOF_NONE;
    int k = active_kind; bool applies = false;
    if (is_read && (k == IOF_EIO || k == IOF_EOF0 || k == IOF_SHORT1)) applies = true;
    if (is_seek && k == IOF_SEEKFAIL) applies = true;
    if (is_tell && k == IOF_TELLFAIL) applies = true;
    // a persisting fault keeps the whole source broken: every callback kind fails in its own way
    if (!applies && active_left < 0) { applies = true; k = is_read ? IOF_EIO : is_seek ? IOF_SEEKFAIL : IOF_TELLFAIL; }
    if (active_left > 0 && applies) { if (--active_left == 0) active_kind = IOF_NONE; }
    else if (active_left > 0 && !applies) { /* one-shot waits for a callback of its kind */ }
    return applies ? k : IOF_NONE;
  }

  size_t do_read(void *ptr, size_t size, size_t nmemb) {
    cb_total++; sim_tick("read");
    if (closed) { n_after_close++; return 0; }
    n_read++;
    size_t want = size * nmemb;
    int f = fault_now(true, false, false);
    if (f == IOF_EIO) { n_injected++; g_stats.inc("fault.io.EIO"); errno = EIO; log.u64(0xE10); { static const bool trace = getenv("VERIF_TRACE_IO") != nullptr; if (trace) fprintf(stderr, "IO read want=%zu -> injected EIO at pos %lld\n", want, (long long)pos); } return 0; }
    if (f == IOF_EOF0) { n_injected++; g_stats.inc("fault.io.EOF0"); errno = 0; log.u64(0xE0F); return 0; }
    size_t avail = (size_t)std::max<int64_t>(0, (int64_t)bytes->size() - pos);
    size_t n = std::min(want, avail);
    if (f == IOF_SHORT1) { n_injected++; g_stats.inc("fault.io.SHORT1"); n = std::min<size_t>(n, 1); }
    else if (n > 0) {
      switch (rdpol) {
        case 1: n = 1; g_stats.inc("io.read.1byte"); break;
        case 2: n = std::min<size_t>(n, (size_t)std::max(1, rdk)); g_stats.inc("io.read.kbytes"); break;
        case 3: n = std::min<size_t>(n, (size_t)(1 + rdrng.below((uint64_t)std::max(1, rdk)))); g_stats.inc("io.read.random"); break;
        case 4: if (n_read & 1) n = 1; g_stats.inc("io.read.alternating"); break;
        default: g_stats.inc("io.read.full"); break;
      }
    }
    if (size > 1) n -= n % size;
    if (n) memcpy(ptr, bytes->data() + pos, n);
    if (n && errno_noise && enrng.chance(0.4)) { static const int ev[] = {EINTR, EAGAIN, ENOTTY, EIO, ESPIPE}; errno = ev[enrng.below(5)]; g_stats.inc("io.read.data_with_errno_set"); }
    pos += (int64_t)n;   // (otherwise) errno is left alone, as fread and memory readers leave it: a plain end of data is "0 bytes, errno untouched"
    { static const bool trace = getenv("VERIF_TRACE_IO") != nullptr; if (trace) fprintf(stderr, "IO read want=%zu got=%zu -> pos %lld\n", want, n, (long long)pos); }
    log.u64(1); log.u64(n); log.i64(pos);
    return size ? n / size : 0;
  }
  int do_seek(int64_t off, int whence) {
    cb_total++; sim_tick("seek");
    if (closed) { n_after_close++; return -1; }
    n_seek++;
    if (!seekable) { log.u64(0x5E0); return -1; }
    int f = fault_now(false, true, false);
    if (f == IOF_SEEKFAIL) { n_injected++; g_stats.inc("fault.io.SEEKFAIL"); log.u64(0x5EF); return -1; }
    int64_t base = whence == SEEK_SET ? 0 : whence == SEEK_CUR ? pos : (int64_t)bytes->size();
    int64_t np = base + off;
    if (np < 0) { log.u64(0x5E1); return -1; }
    pos = np; log.u64(2); log.i64(pos);
    static const bool trace = getenv("VERIF_TRACE_IO") != nullptr; if (trace) fprintf(stderr, "IO seek %lld whence=%d -> %lld\n", (long long)off, whence, (long long)pos);
    return 0;
  }
  long do_tell() {
    cb_total++; sim_tick("tell");
    if (closed) { n_after_close++; return -1; }
    n_tell++;
    if (!seekable) return -1;
    int f = fault_now(false, false, true);
    if (f == IOF_TELLFAIL) { n_injected++; g_stats.inc("fault.io.TELLFAIL"); log.u64(0x7EF); return -1; }
    log.u64(3); log.i64(pos);
    return (long)pos;
  }
  int do_close() { cb_total++; sim_tick("close"); n_close++; if (closed) n_after_close++; closed = true; log.u64(4); return 0; }

  static size_t cb_read(void *ptr, size_t size, size_t nmemb, void *ds) { return ((SimFile *)ds)->do_read(ptr, size, nmemb); }
  static int cb_seek(void *ds, int64_t off, int whence) { return ((SimFile *)ds)->do_seek(off, whence); }
  static int cb_close(void *ds) { return ((SimFile *)ds)->do_close(); }
  static long cb_tell(void *ds) { return ((SimFile *)ds)->do_tell(); }
};
