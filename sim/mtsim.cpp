// mtsim.cpp — independent codec instances on real threads under a seeded scheduler (C18).
// Tasks are real pthreads; all but one are parked on a condition variable. Yield points: every CFG edge of libvorbis
// (-fsanitize-coverage=trace-pc-guard -> sched_edge_hook), every allocator call, every SimFile callback, op boundaries.
// Phases per run: each task alone (poison A); all tasks together under the seeded preemptive schedule; each task alone again
// with a different heap/stack poison (B).  Oracle: per task, observation hash and executed-edge count identical in all three.
#include "corpus.hpp"
#include "simfile.hpp"
extern "C" {
#include <vorbis/vorbisfile.h>
}
#include <pthread.h>
#include <xmmintrin.h>
#include <cfenv>
#include <atomic>

namespace {

struct FpEnv { unsigned mxcsr; unsigned short cw; int rnd; bool operator==(const FpEnv &o) const { return mxcsr == o.mxcsr && cw == o.cw && rnd == o.rnd; } };
FpEnv fpenv() { FpEnv e; e.mxcsr = _mm_getcsr() & ~0x3Fu; __asm__ volatile("fnstcw %0" : "=m"(e.cw)); e.rnd = fegetround(); return e; }

struct Task;
struct Sched {
  pthread_mutex_t mu = PTHREAD_MUTEX_INITIALIZER;
  std::vector<Task *> tasks; int current = -1; bool active = false;
  Prng rng{1}; int strategy = 0; int64_t gap = 500; int64_t countdown = 1 << 30;
  std::vector<uint64_t> pct_points; size_t pct_next = 0; uint64_t burst_lo = 0, burst_hi = 0;
  uint64_t global_edges = 0; uint64_t switches = 0; Hasher log;
  void arm_countdown();
  void yield_from(Task *me, bool finished);
};
Sched *g_sched = nullptr;
thread_local Task *t_task = nullptr;

struct Task {
  int id = 0; std::string kind; std::function<void(Task &)> body;
  pthread_t th; pthread_cond_t cv = PTHREAD_COND_INITIALIZER; bool done = false; bool started = false;
  Hasher h; uint64_t edges = 0; bool fp_changed = false; std::string fp_where; int ops = 0; int poison_mode = 4; uint64_t pseed = 1;
  std::string error;
  void op_boundary(const char *name) {   // called by task bodies between API calls
    ops++; stack_scribble(poison_mode, pseed + (uint64_t)ops);
    if (g_sched && g_sched->active && g_sched->strategy == 2 && g_sched->rng.chance(0.3)) g_sched->yield_from(this, false);
    (void)name;
  }
  template <class F> auto api(const char *name, F f) -> decltype(f()) { FpEnv a = fpenv(); auto r = f(); FpEnv b = fpenv(); if (!(a == b) && !fp_changed) { fp_changed = true; fp_where = name; } return r; }
};

void Sched::arm_countdown() {
  switch (strategy) {
    case 0: countdown = 1 + (int64_t)rng.below((uint64_t)(2 * gap)); break;                          // uniform
    case 1: countdown = pct_next < pct_points.size() ? (int64_t)std::max<uint64_t>(1, pct_points[pct_next] > global_edges ? pct_points[pct_next] - global_edges : 1) : ((int64_t)1 << 40); break;   // PCT-like: few preemptions at random depths
    case 2: countdown = (int64_t)1 << 40; break;                                                        // coarse: op boundaries only
    default: countdown = (global_edges >= burst_lo && global_edges < burst_hi) ? 1 + (int64_t)rng.below(4) : 1 + (int64_t)rng.below((uint64_t)(2 * gap * 20)); break;   // burst
  }
}

// called with the calling task being `current`; hands the processor to a seeded choice among runnable tasks
void Sched::yield_from(Task *me, bool finished) {
  pthread_mutex_lock(&mu);
  if (finished) me->done = true;
  if (strategy == 1 && !finished && pct_next < pct_points.size()) pct_next++;
  std::vector<int> runnable; for (size_t i = 0; i < tasks.size(); i++) if (!tasks[i]->done) runnable.push_back((int)i);
  if (runnable.empty()) { current = -1; pthread_mutex_unlock(&mu); return; }
  int next = runnable[rng.below(runnable.size())];
  if (!finished && strategy != 2 && runnable.size() > 1 && next == me->id) next = runnable[(std::find(runnable.begin(), runnable.end(), next) - runnable.begin() + 1) % runnable.size()];   // a preemption preempts
  arm_countdown();
  if (next != me->id || finished) {
    switches++; log.u64(global_edges); log.u64((uint64_t)me->id); log.u64((uint64_t)next);
    current = next;
    pthread_cond_signal(&tasks[(size_t)next]->cv);
    if (!finished) { while (current != me->id) pthread_cond_wait(&me->cv, &mu); }
  }
  pthread_mutex_unlock(&mu);
}

void *task_main(void *arg) {
  Task *t = (Task *)arg; t_task = t;
  Sched *s = g_sched;
  pthread_mutex_lock(&s->mu); t->started = true; while (s->current != t->id) pthread_cond_wait(&t->cv, &s->mu); pthread_mutex_unlock(&s->mu);
  simalloc_set_task(t->id + 1);
  try { t->body(*t); } catch (SimViolation &v) { t->error = v.cls + ": " + v.detail; } catch (...) { t->error = "exception"; }
  s->yield_from(t, true);
  return nullptr;
}

}  // namespace

// every libvorbis CFG edge, allocator call and I/O callback lands here while scheduling is enabled
extern "C" void sched_edge_hook() {
  Task *t = t_task; if (!t) return;
  Sched *s = g_sched; if (!s) return;
  t->edges++; s->global_edges++;
  if (!s->active) return;
  if (--s->countdown <= 0) s->yield_from(t, false);
}

namespace {

// ---------------------------------------------------------------- task bodies
struct EncJob { Recipe r; };
void body_encoder(Task &T, const Recipe &r) {
  vorbis_info vi; vorbis_info_init(&vi); int ret;
  // the three-step set-up (what the one-call forms do internally), with the control interface's queries between the steps
  switch (r.mode) { case 0: ret = vorbis_encode_setup_vbr(&vi, r.ch, r.rate, (float)r.q); break; case 1: ret = vorbis_encode_setup_managed(&vi, r.ch, r.rate, -1, r.nominal, -1); break;
    case 2: ret = vorbis_encode_setup_managed(&vi, r.ch, r.rate, r.nominal + r.nominal / 3, r.nominal, r.nominal - r.nominal / 3); break; default: ret = vorbis_encode_setup_managed(&vi, r.ch, r.rate, r.nominal, r.nominal, r.nominal); }
  if (!ret) { 
  // the control interface's queries write into caller storage: whatever that storage held before (here: the phase's poison) must not show in what comes back
  { auto fill = [&](void *p, size_t n) { unsigned char *q = (unsigned char *)p; Prng pr(T.pseed ^ 0x6e7); for (size_t i = 0; i < n; i++) q[i] = T.poison_mode == 0 ? 0 : T.poison_mode == 1 ? 0xFF : T.poison_mode == 2 ? 0xAA : (unsigned char)pr.next(); };
    struct ovectl_ratemanage2_arg r2; fill(&r2, sizeof r2); int g2 = vorbis_encode_ctl(&vi, OV_ECTL_RATEMANAGE2_GET, &r2); T.h.i64(g2);
    if (!g2) { T.h.i64(r2.management_active); T.h.i64(r2.bitrate_limit_min_kbps); T.h.i64(r2.bitrate_limit_max_kbps); T.h.i64(r2.bitrate_limit_reservoir_bits); T.h.bytes(&r2.bitrate_limit_reservoir_bias, 8); T.h.i64(r2.bitrate_average_kbps); T.h.bytes(&r2.bitrate_average_damping, 8); }
    struct ovectl_ratemanage_arg r1; fill(&r1, sizeof r1); int g1 = vorbis_encode_ctl(&vi, OV_ECTL_RATEMANAGE_GET, &r1); T.h.i64(g1);
    if (!g1) { T.h.i64(r1.management_active); T.h.i64(r1.bitrate_hard_min); T.h.i64(r1.bitrate_hard_max); T.h.bytes(&r1.bitrate_hard_window, 8); T.h.i64(r1.bitrate_av_lo); T.h.i64(r1.bitrate_av_hi); T.h.bytes(&r1.bitrate_av_window, 8); T.h.bytes(&r1.bitrate_av_window_center, 8); }
    double lp; fill(&lp, sizeof lp); int g3 = vorbis_encode_ctl(&vi, OV_ECTL_LOWPASS_GET, &lp); T.h.i64(g3); if (!g3) T.h.bytes(&lp, 8);
    double ib; fill(&ib, sizeof ib); int g4 = vorbis_encode_ctl(&vi, OV_ECTL_IBLOCK_GET, &ib); T.h.i64(g4); if (!g4) T.h.bytes(&ib, 8);
    int cp; fill(&cp, sizeof cp); int g5 = vorbis_encode_ctl(&vi, OV_ECTL_COUPLING_GET, &cp); T.h.i64(g5); if (!g5) T.h.i64(cp); }
    ret = vorbis_encode_setup_init(&vi); }
  T.h.i64(ret); if (ret) { vorbis_info_clear(&vi); return; }
  vorbis_comment vc; vorbis_comment_init(&vc); vorbis_comment_add_tag(&vc, "T", "mtsim");
  vorbis_dsp_state vd; vorbis_block vb; T.api("vorbis_analysis_init", [&] { return vorbis_analysis_init(&vd, &vi); }); vorbis_block_init(&vd, &vb);
  ogg_packet a, b, c; vorbis_analysis_headerout(&vd, &vc, &a, &b, &c); T.h.bytes(a.packet, (size_t)a.bytes); T.h.bytes(b.packet, (size_t)b.bytes); T.h.bytes(c.packet, (size_t)c.bytes);
  Signal sig(r); int64_t done = 0; bool ended = false;
  while (!ended) {
    T.op_boundary("wrote");
    int64_t k = std::min<int64_t>(777, r.n - done);
    if (k > 0) { float **buf = vorbis_analysis_buffer(&vd, (int)k); for (int ch = 0; ch < r.ch; ch++) for (int64_t i = 0; i < k; i++) buf[ch][i] = sig.at(ch, done + i); vorbis_analysis_wrote(&vd, (int)k); done += k; }
    else { vorbis_analysis_wrote(&vd, 0); ended = true; }
    while (T.api("vorbis_analysis_blockout", [&] { return vorbis_analysis_blockout(&vd, &vb); }) == 1) {
      T.api("vorbis_analysis", [&] { return vorbis_analysis(&vb, NULL); }); vorbis_bitrate_addblock(&vb);
      ogg_packet op; while (vorbis_bitrate_flushpacket(&vd, &op)) { T.h.bytes(op.packet, (size_t)op.bytes); T.h.i64(op.granulepos); T.h.i64(op.e_o_s); }
    }
  }
  vorbis_block_clear(&vb); vorbis_dsp_clear(&vd); vorbis_comment_clear(&vc); vorbis_info_clear(&vi);
}

void body_decoder(Task &T, const Link &l, int halfrate) {
  vorbis_info vi; vorbis_comment vc; vorbis_dsp_state vd; vorbis_block vb; vorbis_info_init(&vi); vorbis_comment_init(&vc);
  for (int i = 0; i < 3; i++) { ogg_packet op = pkt_to_op(l.hdr[(size_t)i]); int r = vorbis_synthesis_headerin(&vi, &vc, &op); T.h.i64(r); }
  if (halfrate) vorbis_synthesis_halfrate(&vi, 1);
  if (T.api("vorbis_synthesis_init", [&] { return vorbis_synthesis_init(&vd, &vi); })) { vorbis_comment_clear(&vc); vorbis_info_clear(&vi); return; }
  vorbis_block_init(&vd, &vb);
  for (auto &p : l.audio) {
    T.op_boundary("packet"); ogg_packet op = pkt_to_op(p);
    int r = T.api("vorbis_synthesis", [&] { return vorbis_synthesis(&vb, &op); }); T.h.i64(r); if (r == 0) vorbis_synthesis_blockin(&vd, &vb);
    float **pcm; int n; while ((n = vorbis_synthesis_pcmout(&vd, &pcm)) > 0) { for (int c = 0; c < vi.channels; c++) T.h.f32s(pcm[c], (size_t)n); vorbis_synthesis_read(&vd, n); }
  }
  vorbis_block_clear(&vb); vorbis_dsp_clear(&vd); vorbis_comment_clear(&vc); vorbis_info_clear(&vi);
}

void body_vorbisfile(Task &T, const PhysStream &ps, int64_t total, uint64_t seed, bool seekable, int rdpol, int rdk) {
  SimFile sf; sf.bytes = &ps.bytes; sf.seekable = seekable; sf.rdpol = rdpol; sf.rdk = rdk; sf.rdrng.reseed(seed ^ 5); sf.errno_noise = (int)((seed >> 9) & 1); sf.enrng.reseed(seed ^ 9);
  OggVorbis_File vf; ov_callbacks cb = {SimFile::cb_read, SimFile::cb_seek, SimFile::cb_close, SimFile::cb_tell};
  T.op_boundary("open");
  int r = T.api("ov_open_callbacks", [&] { return ov_open_callbacks(&sf, &vf, nullptr, 0, cb); }); T.h.i64(r); if (r) return;
  Prng g(seed); int nops = 6 + (int)g.below(10); std::vector<char> buf(8192);
  for (int i = 0; i < nops; i++) {
    T.op_boundary("vfop"); double u = g.unit();
    if (seekable && u < 0.2) { int64_t p = (int64_t)g.below((uint64_t)total + 1); int rr = T.api("ov_pcm_seek", [&] { return ov_pcm_seek(&vf, p); }); T.h.i64(rr); T.h.i64(ov_pcm_tell(&vf)); }
    else if (seekable && u < 0.28) { int64_t p = (int64_t)g.below((uint64_t)total + 1); int rr = T.api("ov_pcm_seek_lap", [&] { return ov_pcm_seek_lap(&vf, p); }); T.h.i64(rr); T.h.i64(ov_pcm_tell(&vf)); }
    else if (seekable && u < 0.34) { int64_t p = (int64_t)g.below((uint64_t)ps.bytes.size() + 1); int rr = T.api("ov_raw_seek", [&] { return ov_raw_seek(&vf, p); }); T.h.i64(rr); T.h.i64(ov_pcm_tell(&vf)); }
    else if (seekable && u < 0.40) { double t = g.unit() * ov_time_total(&vf, -1); int rr = T.api("ov_time_seek_page", [&] { return ov_time_seek_page(&vf, t); }); T.h.i64(rr); T.h.i64(ov_pcm_tell(&vf)); }
    else if (seekable && u < 0.44) { int rr = T.api("ov_halfrate", [&] { return ov_halfrate(&vf, (int)g.below(2)); }); T.h.i64(rr); T.h.i64(ov_pcm_tell(&vf)); }
    else if (u < 0.50) {   // the query calls: what they report is a function of the stream and the position only
      int li = (int)g.below(4) - 1; T.h.i64(ov_bitrate_instant(&vf)); T.h.i64(ov_bitrate(&vf, li)); T.h.i64(ov_serialnumber(&vf, li)); T.h.i64(ov_streams(&vf)); T.h.i64(ov_raw_tell(&vf)); double tt = ov_time_tell(&vf), tl = ov_time_total(&vf, li); T.h.bytes(&tt, 8); T.h.bytes(&tl, 8);
      T.h.i64(ov_pcm_total(&vf, li)); T.h.i64(ov_raw_total(&vf, li)); vorbis_info *qi = ov_info(&vf, li); T.h.i64(qi ? qi->channels : -1); T.h.i64(qi ? qi->rate : -1); vorbis_comment *qc = ov_comment(&vf, li); T.h.i64(qc ? qc->comments : -1); }
    else if (u < 0.70) { int reps = 1 + (int)g.below(4); for (int k = 0; k < reps; k++) { float **pcm; int sec; int len = 1 + (int)g.below(4096); long n = T.api("ov_read_float", [&] { return ov_read_float(&vf, &pcm, len, &sec); }); T.h.i64(n); if (n <= 0) break; vorbis_info *vi = ov_info(&vf, -1); for (int c = 0; c < vi->channels; c++) T.h.f32s(pcm[c], (size_t)n); T.h.i64(sec); } }
    else { int reps = 1 + (int)g.below(4); int word = 1 + (int)g.below(2), sg = (int)g.below(2), be = (int)g.below(2); for (int k = 0; k < reps; k++) { int sec; int len = 64 + (int)g.below(8000); long n = T.api("ov_read", [&] { return ov_read(&vf, buf.data(), len, be, word, sg, &sec); }); T.h.i64(n); if (n <= 0) break; T.h.bytes(buf.data(), (size_t)n); } }
  }
  T.h.i64(ov_pcm_tell(&vf)); ov_clear(&vf);
}

// ---------------------------------------------------------------- run
struct MtRun {
  const Plan &plan; Hasher h; bool nontrivial = false; std::string prop = "C18";
  explicit MtRun(const Plan &p) : plan(p) {}
  [[noreturn]] void fail(const std::string &site, const std::string &sym, const std::string &detail, std::map<std::string, std::string> facts = {}) { SimViolation v; v.prop = prop; v.cls = prop + "/" + site + "/" + sym; v.detail = detail; v.facts = facts; throw v; }

  struct Prepared { std::string kind; Recipe r; std::shared_ptr<Link> l; std::shared_ptr<PhysStream> ps; int64_t total = 0; uint64_t seed = 1; bool seekable = true; int rdpol = 0, rdk = 64; int halfrate = 0; };
  std::vector<Prepared> prep;

  std::function<void(Task &)> make_body(const Prepared &p) {
    if (p.kind == "enc") return [p](Task &T) { body_encoder(T, p.r); };
    if (p.kind == "dec") return [p](Task &T) { body_decoder(T, *p.l, p.halfrate); };
    return [p](Task &T) { body_vorbisfile(T, *p.ps, p.total, p.seed, p.seekable, p.rdpol, p.rdk); };
  }

  struct PhaseOut { std::vector<uint64_t> hash, edges; std::vector<bool> fp; std::vector<std::string> fpw, err; uint64_t switches = 0, sched_hash = 0; int foreign = 0; size_t leaked = 0; };

  // run the given subset of tasks on threads under a schedule (strategy < 0: no preemption, tasks run one after the other)
  PhaseOut run_phase(const std::vector<size_t> &which, int strategy, uint64_t sseed, int64_t gap, int poison_mode, uint64_t pseed, uint64_t total_edges_hint) {
    PhaseOut out; Sched S; S.rng.reseed(sseed); S.strategy = strategy < 0 ? 2 : strategy; S.gap = gap; S.active = strategy >= 0;
    if (strategy == 1) { int d = 1 + (int)S.rng.below(3); for (int i = 0; i < d; i++) S.pct_points.push_back(S.rng.below(std::max<uint64_t>(1, total_edges_hint))); std::sort(S.pct_points.begin(), S.pct_points.end()); }
    if (strategy == 3) { S.burst_lo = S.rng.below(std::max<uint64_t>(1, total_edges_hint)); S.burst_hi = S.burst_lo + 2000 + S.rng.below(40000); }
    std::vector<std::unique_ptr<Task>> tasks;
    for (size_t k = 0; k < which.size(); k++) { auto t = std::make_unique<Task>(); t->id = (int)k; t->kind = prep[which[k]].kind; t->body = make_body(prep[which[k]]); t->poison_mode = poison_mode; t->pseed = pseed + k; tasks.push_back(std::move(t)); }
    for (auto &t : tasks) S.tasks.push_back(t.get());
    simalloc_begin(pseed, poison_mode);
    g_sched = &S; g_sched_enabled = 1;
    pthread_mutex_lock(&S.mu); S.arm_countdown(); pthread_mutex_unlock(&S.mu);
    for (auto &t : tasks) pthread_create(&t->th, nullptr, task_main, t.get());
    // wait until every thread is parked, then release the first
    for (;;) { pthread_mutex_lock(&S.mu); bool all = true; for (auto &t : tasks) if (!t->started) all = false; pthread_mutex_unlock(&S.mu); if (all) break; sched_yield(); }
    pthread_mutex_lock(&S.mu); S.current = strategy < 0 ? 0 : (int)S.rng.below(tasks.size()); pthread_cond_signal(&tasks[(size_t)S.current]->cv); pthread_mutex_unlock(&S.mu);
    for (auto &t : tasks) pthread_join(t->th, nullptr);
    g_sched_enabled = 0; g_sched = nullptr;
    LedgerReport lr = simalloc_end(); out.foreign = lr.foreign_free; out.leaked = lr.live_blocks;
    for (auto &t : tasks) { out.hash.push_back(t->h.h); out.edges.push_back(t->edges); out.fp.push_back(t->fp_changed); out.fpw.push_back(t->fp_where); out.err.push_back(t->error); }
    out.switches = S.switches; out.sched_hash = S.log.h;
    return out;
  }

  void run() {
    const Rec *sc = plan.first("sched"); int strategy = sc ? (int)sc->i("strategy", 0) : 0; uint64_t sseed = sc ? sc->u("seed", 1) : 1; int64_t gap = sc ? sc->i("gap", 500) : 500;
    for (auto *t : plan.all("task")) {
      Prepared p; p.kind = t->s("kind", "dec"); p.r = Recipe::from(*t); p.seed = t->u("tseed", 1); p.seekable = t->i("seekable", 1) != 0; p.rdpol = (int)t->i("rdpol", 0); p.rdk = (int)t->i("rdk", 64); p.halfrate = (int)t->i("halfrate", 0);
      if (p.kind != "enc") { p.l = get_link(p.r); if (!p.l->ok || p.l->ref_err) continue; }
      if (p.kind == "vf") { p.ps = std::make_shared<PhysStream>(); MuxPolicy mp; mp.policy = (int)t->i("pol", 0); mp.k = (int)t->i("k", 4); mp.serial = 1000 + (long)prep.size(); mux_link(*p.ps, p.l, mp);
        if (t->has("r2ch")) { Recipe r2 = p.r; r2.ch = (int)t->i("r2ch"); r2.rate = t->i("r2rate", r2.rate); r2.seed = p.r.seed + 1; r2.n = std::min<int64_t>(p.r.n, 6000); auto l2 = get_link(r2); if (l2->ok && !l2->ref_err) { MuxPolicy m2 = mp; m2.serial = 5000 + (long)prep.size(); mux_link(*p.ps, l2, m2); } }
        p.total = 0; for (auto &l : p.ps->links) p.total += l->len;
        if (t->has("trunc")) { auto cp = std::make_shared<PhysStream>(*p.ps); int64_t cut = std::min<int64_t>(t->i("trunc"), (int64_t)cp->bytes.size() / 2); cp->bytes.resize(cp->bytes.size() - (size_t)cut); p.ps = cp; }   // a file cut off inside its last pages: the totals come from whatever page is found last
        if (t->has("junk")) { auto cp = std::make_shared<PhysStream>(*p.ps); Prng j(p.seed ^ 0x77); int64_t nj = t->i("junk"); for (int64_t q = 0; q < nj; q++) cp->bytes.push_back((uint8_t)(0x80 | j.below(0x7f))); p.ps = cp; } }   // a few trailing non-Ogg bytes: open and seeks really run into the end of the data
      prep.push_back(p);
    }
    if (prep.empty()) return;
    std::vector<size_t> all; for (size_t i = 0; i < prep.size(); i++) all.push_back(i);
    int pA = sc ? (int)sc->i("poisonA", 4) : 4, pB = sc ? (int)sc->i("poisonB", 1) : 1; uint64_t psA = sc ? sc->u("pseedA", 11) : 11, psB = sc ? sc->u("pseedB", 99) : 99;
    // phase 1: each task alone
    std::vector<uint64_t> h1, e1; uint64_t total_edges = 0;
    for (size_t i = 0; i < prep.size(); i++) { PhaseOut o = run_phase({i}, -1, 1, gap, pA, psA + i, 0); h1.push_back(o.hash[0]); e1.push_back(o.edges[0]); total_edges += o.edges[0];
      if (!o.err[0].empty()) fail("task", "task-error", o.err[0]);
      if (o.fp[0]) fail("fpenv", "fp-environment-changed", fmt("task %zu (%s): FP control state differs after %s", i, prep[i].kind.c_str(), o.fpw[0].c_str()), {{"kind", prep[i].kind}}); }
    // phase 2: all together under the seeded schedule
    PhaseOut c = run_phase(all, strategy, sseed, gap, pA, psA, total_edges);
    h.u64(c.sched_hash); h.u64(c.switches); for (auto x : c.hash) h.u64(x);
    g_stats.inc("sched.context_switches", c.switches); g_stats.inc(fmt("sched.strategy.%d", strategy)); g_stats.inc("sched.tasks", prep.size()); g_stats.inc("sched.yield_decisions_edges", total_edges);
    nontrivial = c.switches > prep.size();
    for (size_t i = 0; i < prep.size(); i++) {
      std::map<std::string, std::string> facts = {{"kind", prep[i].kind}, {"strategy", std::to_string(strategy)}};
      if (c.hash[i] != h1[i]) fail("interference", "output-differs-from-solo-run", fmt("task %zu (%s) produced different output when interleaved with %zu other tasks (%llu context switches, strategy %d)", i, prep[i].kind.c_str(), prep.size() - 1, (unsigned long long)c.switches, strategy), facts);
      if (c.edges[i] != e1[i]) fail("interference", "control-flow-differs-from-solo-run", fmt("task %zu (%s) executed %llu edges interleaved, %llu alone", i, prep[i].kind.c_str(), (unsigned long long)c.edges[i], (unsigned long long)e1[i]), facts);
      if (c.fp[i]) fail("fpenv", "fp-environment-changed", fmt("task %zu (%s) after %s", i, prep[i].kind.c_str(), c.fpw[i].c_str()), facts);
    }
    if (c.foreign) fail("ledger", "cross-task-free", fmt("%d frees of blocks owned by another task or unknown to the ledger", c.foreign));
    // phase 3: each task alone under a different heap / stack poison and perturbed allocation addresses
    for (size_t i = 0; i < prep.size(); i++) {
      std::vector<void *> junk; Prng jr(psB + i); int nj = (int)jr.below(40); for (int k = 0; k < nj; k++) junk.push_back(malloc(16 + jr.below(5000)));
      PhaseOut o = run_phase({i}, -1, 1, gap, pB, psB + i, 0);
      for (auto p : junk) free(p);
      std::map<std::string, std::string> facts = {{"kind", prep[i].kind}, {"poisonA", std::to_string(pA)}, {"poisonB", std::to_string(pB)}};
      if (o.hash[0] != h1[i]) fail("reproducibility", "output-depends-on-memory-contents", fmt("task %zu (%s) produced different output with heap/stack poison %d than with %d", i, prep[i].kind.c_str(), pB, pA), facts);
      if (o.edges[0] != e1[i]) fail("reproducibility", "control-flow-depends-on-memory-contents", fmt("task %zu (%s): %llu vs %llu edges", i, prep[i].kind.c_str(), (unsigned long long)o.edges[0], (unsigned long long)e1[i]), facts);
    }
    g_stats.inc("probe.mt_runs_completed");
  }
};

struct MtGen {
  Prng g; const GenCfg &c; Plan p; bool thorough;
  explicit MtGen(const GenCfg &cfg) : g(cfg.seed), c(cfg), thorough(cfg.tier == "thorough") {}
  Recipe recipe(bool small) {
    Recipe r; static const long rates[] = {8000, 16000, 22050, 32000, 44100, 48000, 44100, 64000, 96000, 192000};
    r.rate = rates[g.below(small ? 10 : 7)]; double cc = g.unit(); r.ch = cc < 0.35 ? 1 : cc < 0.85 ? 2 : cc < 0.93 ? 3 : 6; r.q = -0.1 + g.unit() * 1.1;
    r.mode = g.chance(0.2) ? 1 + (int)g.below(3) : 0; if (r.mode) r.nominal = (long)(r.rate * 1.4 * std::min(r.ch, 2) * (0.6 + g.unit()));
    r.n = small ? (int64_t)g.range(1500, 5000) : (int64_t)g.range(4000, 14000); if (r.ch > 2) r.n = std::min<int64_t>(r.n, 4000);
    r.sig = (int)g.below(6); r.seed = g.below(30); r.ncomm = 1; r.n = (r.n / 499) * 499;
    if (r.ch >= 2 && g.chance(0.25)) r.mute = 1 + (int)g.below((1u << r.ch) - 2);
    return r;
  }
  Plan make() {
    Rec &m = p.add("meta"); m.set("prop", "C18").setu("seed", c.seed).set("mode", "mt");
    int nt = (int)g.range(2, thorough ? 6 : 4);
    for (int i = 0; i < nt; i++) {
      Rec &t = p.add("task"); double u = g.unit(); std::string kind = u < 0.4 ? "enc" : u < 0.65 ? "dec" : "vf";
      Recipe r = recipe(kind == "enc");
      if (kind == "enc" && g.chance(0.12)) r.n = (int64_t)g.below(70);   // a handful of samples: the encoder's lead-in and end-of-stream extrapolation work on what the buffers held before
      if (kind != "enc" && g.chance(0.18)) { Recipe z; z.craft = 1; z.ch = (int)g.range(1, 3); z.rate = r.rate; z.seed = g.below(thorough ? 400 : 40); z.n = (int64_t)(20 + 20 * g.below(5)); z.ncomm = 1; auto lz = get_link(z); if (lz->ok && !lz->ref_err && lz->len > 0) r = z; }   // hand-built set-ups: floor 0, residue 0, lookup type 2 ... under other heap contents and interleavings too
      r.to(t); t.set("kind", kind).setu("tseed", g.below(100000));
      if (kind == "dec") t.set("halfrate", g.chance(0.15) ? 1 : 0);
      if (kind == "vf") { t.set("seekable", g.chance(0.8) ? 1 : 0).set("rdpol", (int64_t)g.below(5)).set("rdk", (int64_t)g.range(16, 3000)).set("pol", (int64_t)g.below(4)).set("k", 4); if (g.chance(0.4)) t.set("r2ch", (int64_t)g.range(1, 2)).set("r2rate", g.chance(0.5) ? 22050 : 48000); if (g.chance(0.3)) t.set("junk", (int64_t)g.range(1, 26)); else if (g.chance(0.2)) t.set("trunc", (int64_t)g.range(1, 6000)); }
    }
    Rec &s = p.add("sched"); int strat = (int)g.below(4);
    s.set("strategy", strat).setu("seed", g.next() % 1000000).set("gap", (int64_t)(g.chance(0.3) ? g.range(20, 200) : g.range(200, 5000)));
    int pa = (int)g.below(5), pb = (int)g.below(5); if (pb == pa) pb = (pa + 1) % 5;
    s.set("poisonA", pa).set("poisonB", pb).setu("pseedA", g.below(100000)).setu("pseedB", g.below(100000));
    return p;
  }
};

struct MtEngine : Engine {
  const char *name() const override { return "mtsim"; }
  Plan gen(const GenCfg &c) override { MtGen G(c); return G.make(); }
  void prepare(const Plan &p) override { for (auto *t : p.all("task")) if (t->s("kind") != "enc") get_link(Recipe::from(*t)); }
  Plan refcrash_plan(const GenCfg &c, const Rec &link) override { Plan p; p.add("meta").set("prop", "C18").setu("seed", c.seed).set("mode", "refcrash"); Rec &a = p.add("task"); a = link; a.type = "task"; a.set("kind", "dec"); p.add("sched").set("strategy", 0); return p; }
  std::vector<std::string> droppable() const override { return {"task"}; }
  bool valid(const Plan &p) override { return p.count("task") >= 1; }
  std::vector<Plan> simplify(const Plan &p) override {
    std::vector<Plan> out;
    for (size_t i = 0; i < p.recs.size(); i++) { const Rec &r = p.recs[i];
      if (r.type == "sched" && r.i("strategy") != 0) { Plan q = p; q.recs[i].set("strategy", 0); out.push_back(q); }
      if (r.type == "task" && r.i("n") > 1500) { Plan q = p; q.recs[i].set("n", (r.i("n") / 2 / 499) * 499 + 499); out.push_back(q); }
      if (r.type == "task" && r.has("r2ch")) { Plan q = p; q.recs[i].erase("r2ch"); out.push_back(q); } }
    return out;
  }
  Outcome exec(const Plan &p) override {
    MtRun R(p); Outcome o;
    try { R.run(); }
    catch (SimViolation &v) { o.violation = true; o.prop = v.prop; o.cls = v.cls; o.facts = v.facts; o.detail = v.detail; simalloc_forget_all(); g_sched_enabled = 0; g_sched = nullptr; }
    o.hash = R.h.h; o.nontrivial = R.nontrivial;
    return o;
  }
};
}  // namespace
Engine *make_mtsim() { return new MtEngine(); }
