// encsim.cpp — the encoder under simulation.
//   mode=conserve  (C04): producer/consumer schedules of vorbis_analysis_buffer/wrote and the packet drain; sample conservation through
//                         three consumers (packet-level decode, vorbisfile seekable, vorbisfile streaming over SimFile).
//   mode=rate      (C14): hard bitrate limits as a token bucket over every window of the packet history; analysis stage real or a stub
//                         that hands seeded candidate packet sizes to the real rate manager.
//   mode=lifecycle (C13): encoder set-up / tear-down paths under the allocator ledger (every template, rejected set-ups, abandon points).
#include "corpus.hpp"
#include "simfile.hpp"
#include <math.h>
#include <stdlib.h>
#include <string.h>
#include <stdio.h>
#include <alloca.h>
#include <malloc.h>
#include <limits.h>
extern "C" {
#include <vorbis/vorbisfile.h>
// the library's internal headers are C: `class` is used as a member name there, and os.h defines min/max/rint macros
#define class klass
#include "codec_internal.h"
#undef class
#undef max
#undef min
#undef rint
}

namespace {

struct Sched {   // producer / consumer schedule
  int part = 1, pk = 1024; uint64_t pseed = 1;   // partition of N into wrote() calls: 0 one call, 1 fixed k, 2 random <= k, 3 all ones (bounded), 4 block-boundary sized
  int direct = 0;                                 // 1: packets taken straight from vorbis_analysis(&vb,&op) (the interface for unmanaged encodes) instead of through the bitrate manager's queue
  int drain = 0, m = 1, one = 0;                  // drain: 0 after every write, 1 every m writes, 2 only at the end; one: 1 = one block per drain opportunity
};

struct EncSetup {
  int ch = 2; long rate = 44100; int how = 0;     // 0 init_vbr, 1 init(avg only), 2 init(max,nom,min), 3 init(cbr), 4 setup_vbr+setup_init, 5 setup_managed+ctl+setup_init
  double q = 0.4; long nom = 128000, mx = -1, mn = -1; long reservoir = -1; double bias = -1000; /* unset */ double window = 2.0; int ctl = 0;
};

struct EncRun {
  const Plan &plan; std::string prop, mode; Hasher h; bool nontrivial = false;
  explicit EncRun(const Plan &p) : plan(p) {}
  [[noreturn]] void fail(const std::string &site, const std::string &sym, const std::string &detail, std::map<std::string, std::string> facts = {}) { SimViolation v; v.prop = prop; v.cls = prop + "/" + site + "/" + sym; v.detail = detail; v.facts = facts; throw v; }
  void check(bool c, const std::string &site, const std::string &sym, const std::string &detail, std::map<std::string, std::string> facts = {}) { if (!c) fail(site, sym, detail, facts); }

  static EncSetup setup_from(const Rec &r) { EncSetup e; e.ch = (int)r.i("ch", 2); e.rate = r.i("rate", 44100); e.how = (int)r.i("how", 0); e.q = r.f("q", 0.4); e.nom = r.i("nom", 128000); e.mx = r.i("max", -1); e.mn = r.i("min", -1); e.reservoir = r.i("resv", -1); e.bias = r.f("bias", -1000); e.ctl = (int)r.i("ctl", 0); e.window = r.f("window", 2.0); return e; }

  // returns the library's return code; vi is initialised (vorbis_info_init) in any case
  int do_setup(vorbis_info &vi, const EncSetup &e, struct ovectl_ratemanage2_arg *rm_out) {
    vorbis_info_init(&vi); int ret = 0;
    switch (e.how) {
      case 0: ret = vorbis_encode_init_vbr(&vi, e.ch, e.rate, (float)e.q); break;
      case 1: ret = vorbis_encode_init(&vi, e.ch, e.rate, -1, e.nom, -1); break;
      case 2: ret = vorbis_encode_init(&vi, e.ch, e.rate, e.mx, e.nom, e.mn); break;
      case 3: ret = vorbis_encode_init(&vi, e.ch, e.rate, e.nom, e.nom, e.nom); break;
      case 4: ret = vorbis_encode_setup_vbr(&vi, e.ch, e.rate, (float)e.q);
              if (!ret && e.ctl) { double lp = 15. + (double)(e.ctl % 7); int c1 = vorbis_encode_ctl(&vi, OV_ECTL_LOWPASS_SET, &lp); h.i64(c1); int cp = e.ctl & 1; vorbis_encode_ctl(&vi, OV_ECTL_COUPLING_SET, &cp); double ib = -5.0 - (e.ctl % 9); vorbis_encode_ctl(&vi, OV_ECTL_IBLOCK_SET, &ib); }
              if (!ret) ret = vorbis_encode_setup_init(&vi); break;
      case 6: {   // the deprecated control interface: hard limits and a window in seconds (reservoir = window * mean of the limits; no validation at all)
        ret = vorbis_encode_setup_managed(&vi, e.ch, e.rate, e.mx, e.nom, e.mn);
        if (!ret) {
          struct ovectl_ratemanage_arg ra; memset(&ra, 0, sizeof ra); int g0 = vorbis_encode_ctl(&vi, OV_ECTL_RATEMANAGE_GET, &ra); h.i64(g0);
          ra.management_active = 1; if (e.mx > 0) ra.bitrate_hard_max = e.mx; if (e.mn > 0) ra.bitrate_hard_min = e.mn; ra.bitrate_hard_window = e.window;
          int s = vorbis_encode_ctl(&vi, (e.ctl & 1) ? OV_ECTL_RATEMANAGE_SET : OV_ECTL_RATEMANAGE_HARD, &ra); h.i64(s);
          struct ovectl_ratemanage2_arg rm; memset(&rm, 0, sizeof rm); vorbis_encode_ctl(&vi, OV_ECTL_RATEMANAGE2_GET, &rm); if (rm_out) *rm_out = rm;
          g_stats.inc("probe.deprecated_ratemanage_interface");
          ret = vorbis_encode_setup_init(&vi);
        }
        break; }
      default: {
        // a hard minimum drawn above the hard maximum: the set-up call gets the pair in order (it refuses the other order), the control interface is
        // then offered the pair as drawn and has to refuse it, leaving the limits of the set-up in force
        bool contra = e.mx > 0 && e.mn > 0 && e.mn > e.mx;
        ret = vorbis_encode_setup_managed(&vi, e.ch, e.rate, contra ? e.mn : e.mx, e.nom, contra ? e.mx : e.mn);
        if (!ret) {
          struct ovectl_ratemanage2_arg rm; memset(&rm, 0, sizeof rm);
          int g = vorbis_encode_ctl(&vi, OV_ECTL_RATEMANAGE2_GET, &rm); h.i64(g);
          if (!g) {
            if (e.reservoir >= 0) rm.bitrate_limit_reservoir_bits = e.reservoir;
            if (e.bias > -999) rm.bitrate_limit_reservoir_bias = e.bias;
            if (contra) { rm.bitrate_limit_min_kbps = std::max<long>(1, e.mn / 1000); rm.bitrate_limit_max_kbps = std::max<long>(1, e.mx / 1000); if (rm.bitrate_limit_min_kbps <= rm.bitrate_limit_max_kbps) rm.bitrate_limit_min_kbps = rm.bitrate_limit_max_kbps + 1; g_stats.inc("probe.control_interface_offered_min_above_max"); }
            int s = vorbis_encode_ctl(&vi, OV_ECTL_RATEMANAGE2_SET, &rm); h.i64(s);
            vorbis_encode_ctl(&vi, OV_ECTL_RATEMANAGE2_GET, &rm);
            if (rm_out) *rm_out = rm;
          }
          ret = vorbis_encode_setup_init(&vi);
        }
      }
    }
    return ret;
  }

  std::vector<int> make_partition(int64_t N, const Sched &s, long bs0, long bs1) {
    std::vector<int> w; Prng r(s.pseed); int64_t left = N;
    auto push = [&](int64_t k) { k = std::max<int64_t>(1, std::min(k, left)); w.push_back((int)k); left -= k; };
    if (N == 0) return w;
    switch (s.part) {
      case 0: push(N); break;
      case 3: { int64_t ones = std::min<int64_t>(left, 3000); for (int64_t i = 0; i < ones; i++) push(1); while (left > 0) push(s.pk); break; }
      case 2: while (left > 0) push(1 + (int64_t)r.below((uint64_t)std::max(1, s.pk))); break;
      case 4: { static const int d[] = {-1, 0, 1}; while (left > 0) { long b = r.chance(0.5) ? bs0 : bs1; push(std::max<long>(1, b / (1 << r.below(3)) + d[r.below(3)])); } break; }
      default: while (left > 0) push(s.pk);
    }
    return w;
  }

  // run the encoder over the recipe's signal with the given schedule; returns packets
  struct EncOut { std::vector<Pkt> hdr, audio; long bs0 = 0, bs1 = 0; int nwrites = 0; int rejected = 0; double max_rate = 0, min_rate = 0, reservoir = 0; int managed = 0; long reservoir_raw = 0; };
  void encode(const Recipe &sigr, const EncSetup &es, int64_t N, const Sched &s, EncOut &out, struct ovectl_ratemanage2_arg *rm, bool stub, uint64_t stubseed, int stubpat) {
    vorbis_info vi; int ret = do_setup(vi, es, rm);
    if (ret) { vorbis_info_clear(&vi); out.rejected = ret; g_stats.inc("enc.setup_rejected"); return; }   // the property quantifies over configurations that set up successfully
    { codec_setup_info *ci = (codec_setup_info *)vi.codec_setup;   // the limits in force (OV_ECTL_RATEMANAGE2_GET reports them truncated to whole kbit/s)
      out.max_rate = (double)ci->bi.max_rate; out.min_rate = (double)ci->bi.min_rate; out.reservoir = (double)std::max<long>(0, ci->bi.reservoir_bits); out.managed = ci->bi.max_rate > 0 || ci->bi.min_rate > 0;
      out.reservoir_raw = ci->bi.reservoir_bits; }
    vorbis_comment vc; vorbis_comment_init(&vc); vorbis_comment_add_tag(&vc, "ENCODER", "encsim");
    vorbis_dsp_state vd; vorbis_block vb; vorbis_analysis_init(&vd, &vi); vorbis_block_init(&vd, &vb);
    ogg_packet h0, h1, h2; vorbis_analysis_headerout(&vd, &vc, &h0, &h1, &h2); out.hdr = {pkt_from_op(h0), pkt_from_op(h1), pkt_from_op(h2)};
    out.bs0 = vorbis_info_blocksize(&vi, 0); out.bs1 = vorbis_info_blocksize(&vi, 1);
    std::vector<int> writes = make_partition(N, s, out.bs0, out.bs1); out.nwrites = (int)writes.size();
    Signal sig(sigr); Prng sr(stubseed); double drift = 0.5;
    auto drain = [&](bool all) {
      int blocks = 0;
      while ((all || !s.one || blocks == 0) && vorbis_analysis_blockout(&vd, &vb) == 1) {
        blocks++; sim_tick("block");
        if (s.direct && !stub && !vorbis_bitrate_managed(&vb)) {
          ogg_packet dp; int ar = vorbis_analysis(&vb, &dp); check(ar == 0, "vorbis_analysis", "direct-packet-failed", fmt("ret=%d", ar));
          if (ar == 0) { Pkt p = pkt_from_op(dp); p.bs = vb.W ? out.bs1 : out.bs0; out.audio.push_back(std::move(p)); g_stats.inc("probe.direct_packets"); }
          continue;
        }
        if (!stub) vorbis_analysis(&vb, NULL);
        else {   // stub analysis stage: seeded candidate sizes, non-decreasing in the blob index, written straight into the block's packet blobs
          vorbis_block_internal *vbi = (vorbis_block_internal *)vb.internal; long unit = out.bs1 / out.bs0; long scale = vb.W ? unit : 1;
          double base;
          switch (stubpat) { case 0: base = 4000; break; case 1: base = 1; break; case 2: base = (blocks + out.audio.size()) & 1 ? 6000 : 2; break;
            case 3: drift += (sr.unit() - 0.5) * 0.1; drift = std::min(1.0, std::max(0.0, drift)); base = 1 + drift * 3000; break; default: base = 1 + sr.below(5000); }
          long sz = std::max<long>(1, (long)(base * scale / 8));
          for (int i = 0; i < PACKETBLOBS; i++) {
            oggpack_buffer *o = vbi->packetblob[i]; oggpack_reset(o); long bytes = std::min<long>(65000, std::max<long>(1, (long)(sz * (0.3 + 1.4 * i / (PACKETBLOBS - 1)))));
            oggpack_write(o, 0, 1); oggpack_write(o, (unsigned long)vb.W, 1); for (long b = 0; b < bytes; b++) oggpack_write(o, (unsigned long)(sr.next() & 0xff), 8);
          }
        }
        vorbis_bitrate_addblock(&vb);
        { // C14 anchor state, white-box: the hard-limit reservoir's fill level stays within [0, reservoir_bits] after every block (this is what the
          // black-box window sums below follow from; read directly it has no rounding or boundary allowance to hide a small excess in)
          private_state *bs = (private_state *)vd.backend_state; bitrate_manager_info *bi = &((codec_setup_info *)vi.codec_setup)->bi;
          if (bs && bs->bms.managed && (bi->max_rate > 0 || bi->min_rate > 0) && bi->reservoir_bits > 0) { long r = bs->bms.minmax_reservoir; g_stats.inc("probe.reservoir_level_read");
            check(r >= 0 && r <= bi->reservoir_bits, "reservoir", "fill-level-outside-range", fmt("after packet %zu: minmax_reservoir=%ld, reservoir_bits=%ld (max=%ld min=%ld bit/s)", out.audio.size(), r, bi->reservoir_bits, bi->max_rate, bi->min_rate), {{"stub", stub ? "1" : "0"}, {"side", r < 0 ? "under" : "over"}}); } }
        ogg_packet op; while (vorbis_bitrate_flushpacket(&vd, &op)) { Pkt p = pkt_from_op(op); p.bs = vb.W ? out.bs1 : out.bs0; out.audio.push_back(std::move(p)); }
      }
    };
    int64_t done = 0; int since = 0;
    for (size_t wi = 0; wi <= writes.size(); wi++) {
      if (wi < writes.size()) {
        int k = writes[wi]; float **buf = vorbis_analysis_buffer(&vd, k);
        for (int c = 0; c < es.ch; c++) for (int i = 0; i < k; i++) buf[c][i] = sig.at(c % std::max(1, sigr.ch), done + i) * (c >= sigr.ch ? 0.5f : 1.f);
        int wr = vorbis_analysis_wrote(&vd, k); check(wr == 0, "analysis_wrote", "failed", fmt("ret=%d", wr)); done += k; since++;
        if (s.drain == 0 || (s.drain == 1 && since >= s.m)) { drain(false); since = 0; }
      } else { int wr = vorbis_analysis_wrote(&vd, 0); check(wr == 0, "analysis_wrote", "failed-at-end", fmt("ret=%d", wr)); drain(true); }
    }
    vorbis_block_clear(&vb); vorbis_dsp_clear(&vd); vorbis_comment_clear(&vc); vorbis_info_clear(&vi);
  }

  // ---------------------------------------------------------------- C04
  void run_conserve() {
    const Rec *er = plan.first("enc"); const Rec *sr_ = plan.first("sched"); if (!er) return;
    EncSetup es = setup_from(*er); Recipe sigr; sigr.ch = std::min(es.ch, 8); sigr.rate = es.rate; sigr.sig = (int)er->i("sig", 0); sigr.seed = er->u("seed", 1); sigr.mute = (int)er->i("mute", 0);
    int64_t N = er->i("n", 1000);
    Sched s; if (sr_) { s.part = (int)sr_->i("part", 1); s.pk = (int)sr_->i("k", 1024); s.pseed = sr_->u("pseed", 1); s.drain = (int)sr_->i("drain", 0); s.m = (int)sr_->i("m", 1); s.one = (int)sr_->i("one", 0); s.direct = (int)sr_->i("direct", 0); }
    EncOut eo; encode(sigr, es, N, s, eo, nullptr, false, 0, 0);
    if (eo.rejected) return;
    nontrivial = N > 0 && eo.nwrites >= 2;
    std::map<std::string, std::string> facts = {{"n_lt_block", N < eo.bs0 ? "1" : "0"}, {"ch", std::to_string(es.ch)}};
    // packet history
    check(!eo.audio.empty(), "packets", "no-audio-packet", fmt("N=%lld: encoder produced no audio packet", (long long)N), facts);
    int64_t prev = -1; int neos = 0;
    for (size_t i = 0; i < eo.audio.size(); i++) { const Pkt &p = eo.audio[i]; h.bytes(p.data.data(), p.data.size()); h.i64(p.granule);
      check(p.granule >= prev, "packets", "granule-decreased", fmt("packet %zu granule %lld after %lld", i, (long long)p.granule, (long long)prev), facts); prev = p.granule; if (p.eos) neos++; }
    check(neos == 1 && eo.audio.back().eos, "packets", "eos-flag", fmt("%d packets carry e_o_s; last packet eos=%d", neos, (int)eo.audio.back().eos), facts);
    check(eo.audio.back().granule == N, "packets", "last-granule-not-N", fmt("last granule %lld, N=%lld", (long long)eo.audio.back().granule, (long long)N), facts);
    // consumer 1: packet-level decode
    std::vector<std::vector<float>> pcm; std::vector<int> chunks; int derr = decode_packets(eo.hdr, eo.audio, 0, pcm, &chunks);
    check(derr == 0, "decode", "packet-rejected", fmt("vorbis_synthesis returned %d on encoder output", derr), facts);
    int64_t got = pcm.empty() ? 0 : (int64_t)pcm[0].size();
    check(got == N, "decode", "sample-count", fmt("submitted %lld samples per channel, packet-level decode returned %lld", (long long)N, (long long)got), facts);
    for (auto &c : pcm) check((int64_t)c.size() == got, "decode", "channels-differ-in-length", "", facts);
    g_stats.inc("probe.conserve_packet_level");
    // consumer 1b: the other legitimate loop at the packet level -- submit the block first, and only when that is refused because output is
    // still pending, drain and submit the same block again; a refused call has to be a no-op
    { vorbis_info vi; vorbis_comment vc; vorbis_dsp_state vd; vorbis_block vb; vorbis_info_init(&vi); vorbis_comment_init(&vc); bool okh = true;
      for (int i = 0; i < 3; i++) { ogg_packet op = pkt_to_op(eo.hdr[(size_t)i]); if (vorbis_synthesis_headerin(&vi, &vc, &op)) okh = false; }
      if (okh && vorbis_synthesis_init(&vd, &vi) == 0) { vorbis_block_init(&vd, &vb); int64_t got2 = 0; Prng pr(sigr.seed ^ 0x51); bool same = true; long refused = 0;
        auto drain = [&](bool all) { float **out; int n; while ((n = vorbis_synthesis_pcmout(&vd, &out)) > 0) { int take = all ? n : std::max(1, (int)pr.below((uint64_t)n + 1));
            for (int c = 0; c < vi.channels && same; c++) if (got2 + take > (int64_t)pcm[(size_t)c].size() || memcmp(out[c], pcm[(size_t)c].data() + got2, (size_t)take * sizeof(float))) same = false;
            vorbis_synthesis_read(&vd, take); got2 += take; if (!all) break; } };
        for (auto &p : eo.audio) { ogg_packet op = pkt_to_op(p); if (vorbis_synthesis(&vb, &op)) continue;
          int br = vorbis_synthesis_blockin(&vd, &vb); if (br == OV_EINVAL) { refused++; drain(true); br = vorbis_synthesis_blockin(&vd, &vb); }
          check(br == 0, "decode", "blockin-failed-after-drain", fmt("ret=%d", br), facts);
          if (pr.chance(0.5)) drain(pr.chance(0.5)); }   // sometimes leave output pending so that the next submission is refused
        drain(true);
        check(got2 == N, "decode", "sample-count", fmt("submitted %lld samples per channel, the submit-first decode loop returned %lld (%ld refused submissions)", (long long)N, (long long)got2, refused), facts);
        check(same, "decode", "submit-first-loop-differs", "samples differ from the drain-first decode of the same packets", facts);
        if (refused) g_stats.inc("probe.conserve_blockin_refused_then_retried");
        vorbis_block_clear(&vb); vorbis_dsp_clear(&vd); }
      vorbis_comment_clear(&vc); vorbis_info_clear(&vi); }
    // consumers 2 and 3: vorbisfile over SimFile, seekable and streaming
    const Rec *mx = plan.first("mux"); MuxPolicy mp; if (mx) { mp.policy = (int)mx->i("pol", 0); mp.k = (int)mx->i("k", 4); mp.serial = mx->i("serial", 4242); }
    auto l = std::make_shared<Link>(); l->ok = true; l->hdr = eo.hdr; l->audio = eo.audio; l->bs0 = eo.bs0; l->bs1 = eo.bs1; l->len = got; l->r.ch = es.ch; l->r.rate = es.rate;
    PhysStream ps; mux_link(ps, l, mp);
    const Rec *fr = plan.first("file");
    for (int seekable = 1; seekable >= 0; seekable--) {
      SimFile sf; sf.bytes = &ps.bytes; sf.seekable = seekable; if (fr) { sf.rdpol = (int)fr->i("rdpol", 0); sf.rdk = (int)fr->i("rdk", 64); sf.rdrng.reseed(fr->u("rdseed", 1)); }
      OggVorbis_File vf; ov_callbacks cb = {SimFile::cb_read, SimFile::cb_seek, SimFile::cb_close, SimFile::cb_tell};
      // an application that has sniffed the first bytes itself hands them over; the source stands behind them (seekable or not)
      std::vector<char> initial; int ib = fr ? (int)std::min<int64_t>(fr->i("ibytes", 0), (int64_t)ps.bytes.size()) : 0;
      if (ib > 0) { initial.assign(ps.bytes.begin(), ps.bytes.begin() + ib); sf.pos = ib; g_stats.inc("probe.conserve_open_with_initial_bytes"); }
      int r = ov_open_callbacks(&sf, &vf, ib > 0 ? initial.data() : nullptr, ib, cb);
      const char *site = seekable ? "vorbisfile-seekable" : "vorbisfile-streaming";
      check(r == 0, site, "open-failed", fmt("ret=%d", r), facts);
      if (seekable) {
        check(ov_pcm_total(&vf, -1) == N, site, "total-length", fmt("ov_pcm_total=%lld N=%lld", (long long)ov_pcm_total(&vf, -1), (long long)N), facts);
        check(ov_pcm_tell(&vf) == 0, site, "does-not-start-at-zero", fmt("tell=%lld", (long long)ov_pcm_tell(&vf)), facts);
      }
      int64_t n = 0; float **p; int sec; long rr; Prng lr(7);
      while ((rr = ov_read_float(&vf, &p, 1 + (int)lr.below(4096), &sec)) > 0) { n += rr; }
      check(rr == 0, site, "read-error", fmt("ov_read_float returned %ld after %lld samples", rr, (long long)n), facts);
      check(n == N, site, "sample-count", fmt("delivered %lld of %lld samples", (long long)n, (long long)N), facts);
      h.i64(n); ov_clear(&vf);
      g_stats.inc(seekable ? "probe.conserve_vorbisfile_seekable" : "probe.conserve_vorbisfile_streaming");
    }
    if (N < eo.bs0) g_stats.inc("probe.n_smaller_than_short_block"); if (N == 0) g_stats.inc("probe.n_zero"); if (es.ch > 8) g_stats.inc("probe.many_channels");
  }

  // ---------------------------------------------------------------- C14
  void run_rate() {
    const Rec *er = plan.first("enc"); if (!er) return;
    EncSetup es = setup_from(*er); if (es.how != 2 && es.how != 3 && es.how != 6) es.how = 5; Recipe sigr; sigr.ch = std::min(es.ch, 8); sigr.rate = es.rate; sigr.sig = (int)er->i("sig", 0); sigr.seed = er->u("seed", 1);
    int64_t N = er->i("n", 100000); bool stub = er->i("stub", 0) != 0; int pat = (int)er->i("pat", 0);
    Sched s; s.part = 1; s.pk = 2048;
    struct ovectl_ratemanage2_arg rm; memset(&rm, 0, sizeof rm);
    EncOut eo; encode(sigr, es, N, s, eo, &rm, stub, er->u("stubseed", 1), pat);
    if (eo.rejected) return;
    static const bool trace = getenv("VERIF_TRACE") != nullptr;
    double maxr = eo.max_rate > 0 ? eo.max_rate : 0, minr = eo.min_rate > 0 ? eo.min_rate : 0; double R = eo.reservoir;
    // cross-check with the control interface (it reports whole kbit/s)
    if (rm.management_active) { check(rm.bitrate_limit_max_kbps == (long)(maxr / 1000) || maxr == 0, "ctl", "ratemanage2-get-disagrees", fmt("GET max %ld kbps, in force %.0f bps", rm.bitrate_limit_max_kbps, maxr)); }
    h.i64(rm.bitrate_limit_max_kbps); h.i64(rm.bitrate_limit_min_kbps); h.i64(rm.bitrate_limit_reservoir_bits);
    // a hard limit handed to the set-up call and accepted must be in force afterwards (kbit/s granularity of the interfaces)
    if (es.how == 2 || es.how == 3 || es.how == 6) { long rq_max = es.how == 3 ? es.nom : es.mx, rq_min = es.how == 3 ? es.nom : es.mn;
      if (rq_max > 0) check(maxr > 0 && fabs(maxr - (double)rq_max) < 1000.5, "setup", "hard-maximum-not-in-force", fmt("requested max %ld bit/s, in force %.0f", rq_max, maxr));
      if (rq_min > 0) check(minr > 0 && fabs(minr - (double)rq_min) < 1000.5, "setup", "hard-minimum-not-in-force", fmt("requested min %ld bit/s, in force %.0f", rq_min, minr)); }
    if (!eo.managed || (maxr == 0 && minr == 0)) { g_stats.inc("rate.no_hard_limit_configured"); return; }
    if (eo.reservoir_raw <= 0) g_stats.inc("probe.rate_zero_or_negative_reservoir");
    // token bucket over every contiguous window, evaluated online: S_k = sum(bits - limit*duration); window (i,j] exceeds by S_j - S_i
    double Smax = 0, Smin = 0, minSmax = 0, maxSmin = 0, units = 0; double worst_over = -1e18, worst_under = 1e18;
    std::vector<double> U; U.push_back(0);
    // tolerance: the manager rounds its per-block budget to whole bits once per short-block period (bitrate.c: rint); allow one bit per period in the
    // window, plus the boundary term between the two readings of "duration of those packets" (half a long block at the limit rate)
    double edge_max = maxr * eo.bs1 / 4.0 / es.rate, edge_min = minr * eo.bs1 / 4.0 / es.rate;
    size_t argmin = 0, argmax = 0; std::vector<double> SmaxV, SminV; SmaxV.push_back(0); SminV.push_back(0);
    long altered = 0;
    for (size_t k = 0; k < eo.audio.size(); k++) {
      const Pkt &p = eo.audio[k]; double bits = 8.0 * p.data.size(); double dur = (double)p.bs / 2.0 / es.rate; double u = (double)p.bs / eo.bs0; units += u; U.push_back(units);
      h.i64((int64_t)p.data.size()); h.i64(p.bs);
      if (trace) fprintf(stderr, "TRACE pkt %zu bs=%ld bytes=%zu Smax=%.1f bs0=%ld bs1=%ld maxr=%.0f R=%.0f\n", k, p.bs, p.data.size(), Smax, eo.bs0, eo.bs1, maxr, R);
      if (maxr > 0) { Smax += bits - maxr * dur; SmaxV.push_back(Smax);
        double over = Smax - SmaxV[argmin]; double tol = (units - U[argmin]) + edge_max;
        if (over - R - tol > worst_over) worst_over = over - R - tol;
        check(over <= R + tol, "max", "window-exceeds-reservoir", fmt("packets %zu..%zu: %.0f bits over max_rate*duration, reservoir %.0f (+%.0f rounding allowance); max=%.0f bit/s", argmin, k, over, R, tol, maxr), {{"stub", stub ? "1" : "0"}});
        if (Smax < SmaxV[argmin]) argmin = k + 1; }
      if (minr > 0 && !p.eos) { Smin += bits - minr * dur; SminV.push_back(Smin);
        double under = Smin - SminV[argmax]; double tol = (units - U[argmax]) + edge_min;
        if (under + R + tol < worst_under) worst_under = under + R + tol;
        check(under >= -(R + tol), "min", "window-falls-short-of-reservoir", fmt("packets %zu..%zu: %.0f bits under min_rate*duration, reservoir %.0f (+%.0f rounding allowance); min=%.0f bit/s", argmax, k, -under, R, tol, minr), {{"stub", stub ? "1" : "0"}});
        if (Smin > SminV[argmax]) argmax = k + 1; } else SminV.push_back(Smin);
      if (maxr > 0 && bits > maxr * dur) altered++; if (minr > 0 && bits < minr * dur) altered++;
    }
    nontrivial = altered > 0;
    g_stats.inc(stub ? "probe.rate_stub_runs" : "probe.rate_real_runs"); g_stats.inc("rate.packets", eo.audio.size()); g_stats.inc("rate.packets_beyond_a_limit_rate", (uint64_t)altered);
    if (maxr > 0) g_stats.max("max.rate_max_window_permille_of_reservoir", (uint64_t)std::max(0.0, 1000.0 * (worst_over + R) / std::max(1.0, R)));
    // media time simulated
    double secs = 0; for (auto &p : eo.audio) secs += (double)p.bs / 2.0 / es.rate; g_stats.inc("rate.media_milliseconds", (uint64_t)(secs * 1000));
  }

  // ---------------------------------------------------------------- C13 (encoder part)
  void run_lifecycle() {
    const Rec *er = plan.first("enc"); if (!er) return;
    EncSetup es = setup_from(*er); int at = (int)er->i("abandon", 4); int twice = (int)er->i("twice", 0); int64_t N = er->i("n", 3000);
    int poison_mode = (int)er->i("poison", 4); uint64_t pseed = er->u("pseed", 1);
    Recipe sigr; sigr.ch = std::min(std::max(es.ch, 1), 8); sigr.rate = std::max<long>(es.rate, 1); sigr.sig = (int)er->i("sig", 0); sigr.seed = er->u("seed", 1);
    simalloc_begin(pseed, poison_mode);
    vorbis_info vi; vorbis_comment vc; vorbis_dsp_state vd; vorbis_block vb; bool have_vd = false, have_vb = false, have_vc = false;
    int ret = do_setup(vi, es, nullptr); h.i64(ret);
    check(ret == 0 || (ret <= -128 && ret >= -138), "setup", "undocumented-return", fmt("ret=%d", ret));
    if (ret) g_stats.inc("probe.setup_rejected"); else g_stats.inc("probe.setup_ok");
    nontrivial = true;
    if (ret == 0 && at >= 1) {
      vorbis_analysis_init(&vd, &vi); have_vd = true; vorbis_block_init(&vd, &vb); have_vb = true;
      // one vorbis_info serving more than one encoder instance, one after the other or side by side (the decode side does this routinely)
      int multi = (int)er->i("multi", 0);
      if (multi == 1) { vorbis_block_clear(&vb); vorbis_dsp_clear(&vd); vorbis_analysis_init(&vd, &vi); vorbis_block_init(&vd, &vb); g_stats.inc("probe.encoder_reinit_same_info"); }
      if (multi == 2) { vorbis_dsp_state vd2; vorbis_block vb2; vorbis_analysis_init(&vd2, &vi); vorbis_block_init(&vd2, &vb2); vorbis_block_clear(&vb2); vorbis_dsp_clear(&vd2); g_stats.inc("probe.two_encoders_one_info"); }
      if (at >= 2) { vorbis_comment_init(&vc); have_vc = true; vorbis_comment_add_tag(&vc, "A", "b"); ogg_packet a, b, c;
        int nh = 1 + (int)er->i("hdrs", 0);   // headerout may be called again on the same state (each call hands out fresh packets)
        for (int k = 0; k < nh; k++) { int hr = vorbis_analysis_headerout(&vd, &vc, &a, &b, &c); h.i64(hr); h.bytes(a.packet, (size_t)a.bytes); h.bytes(b.packet, (size_t)b.bytes); h.bytes(c.packet, (size_t)c.bytes); }
        if (nh > 1) g_stats.inc("probe.headerout_repeated");
        // the stand-alone comment header (its buffer is the caller's, released with ogg_packet_clear) and the comment queries
        if (er->i("chdr", 0)) { ogg_packet cp; int cr = vorbis_commentheader_out(&vc, &cp); h.i64(cr); if (cr == 0) { h.bytes(cp.packet, (size_t)cp.bytes); ogg_packet_clear(&cp); }
          h.i64(vorbis_comment_query_count(&vc, "A")); const char *qv = vorbis_comment_query(&vc, "a", 0); h.str(qv ? qv : "(null)"); h.i64(vorbis_comment_query(&vc, "A", 1) ? 1 : 0); h.i64((int64_t)(vorbis_granule_time(&vd, 44100) * 1000)); g_stats.inc("probe.commentheader_out"); } }
      if (at >= 3) {
        Signal sig(sigr); int64_t done = 0; int64_t stop = at == 3 ? N / 2 : N;
        while (done < stop) { int k = (int)std::min<int64_t>(1024, stop - done); float **buf = vorbis_analysis_buffer(&vd, k); for (int c = 0; c < es.ch; c++) for (int i = 0; i < k; i++) buf[c][i] = sig.at(c % sigr.ch, done + i); vorbis_analysis_wrote(&vd, k); done += k;
          while (vorbis_analysis_blockout(&vd, &vb) == 1) { vorbis_analysis(&vb, NULL); vorbis_bitrate_addblock(&vb); ogg_packet op; while (vorbis_bitrate_flushpacket(&vd, &op)) h.i64(op.bytes); } }
        if (at >= 4) { vorbis_analysis_wrote(&vd, 0); while (vorbis_analysis_blockout(&vd, &vb) == 1) { vorbis_analysis(&vb, NULL); vorbis_bitrate_addblock(&vb); ogg_packet op; while (vorbis_bitrate_flushpacket(&vd, &op)) h.i64(op.bytes); } }
      }
    }
    for (int rep = 0; rep <= twice; rep++) {
      // either order of the two clears is legitimate (vorbisfile itself clears the dsp state first)
      if (er->i("dspfirst", 0)) { if (have_vd) vorbis_dsp_clear(&vd); if (have_vb) vorbis_block_clear(&vb); if (have_vd && have_vb) g_stats.inc("probe.encoder_cleared_dsp_state_first"); }
      else { if (have_vb) vorbis_block_clear(&vb); if (have_vd) vorbis_dsp_clear(&vd); }
      if (have_vc) vorbis_comment_clear(&vc);
      vorbis_info_clear(&vi);
    }
    LedgerReport lr = simalloc_end();
    g_stats.max("max.peak_heap_bytes", lr.peak_bytes);
    std::map<std::string, std::string> facts = {{"setup_ok", ret == 0 ? "1" : "0"}, {"how", std::to_string(es.how)}, {"abandon", std::to_string(at)}};
    check(lr.live_blocks == 0, "ledger", "leak", fmt("%zu blocks / %zu bytes still allocated after the clear calls (setup ret=%d, abandon point %d); first: %s", lr.live_blocks, lr.live_bytes, ret, at, lr.first_leak.c_str()), facts);
    check(lr.foreign_free == 0, "ledger", "foreign-or-double-free", fmt("%d frees of blocks not in the ledger", lr.foreign_free), facts);
  }

  void run() {
    const Rec *meta = plan.first("meta"); prop = meta ? meta->s("prop", "C04") : "C04"; mode = meta ? meta->s("mode", "conserve") : "conserve";
    if (mode == "conserve") run_conserve(); else if (mode == "rate") run_rate(); else run_lifecycle();
  }
};

// ---------------------------------------------------------------- generation
struct EncGen {
  Prng g; const GenCfg &c; Plan p; bool thorough;
  explicit EncGen(const GenCfg &cfg) : g(cfg.seed), c(cfg), thorough(cfg.tier == "thorough") {}
  long pick_rate() { static const long rates[] = {8000, 11025, 12000, 16000, 22050, 24000, 32000, 44100, 48000, 44100, 64000, 96000, 192000, 7000, 4000};
    if (g.chance(0.12)) { static const long edges[] = {8000, 9000, 15000, 19000, 26000, 40000, 50000, 200000}; return std::max<long>(1, edges[g.below(8)] + (long)g.range(-1, 1)); }
    return rates[g.below(15)]; }
  int pick_ch(bool allow_many) { double u = g.unit(); if (allow_many && u < 0.07) return (int)g.range(9, g.chance(0.3) ? 255 : 32); return u < 0.3 ? 1 : u < 0.7 ? 2 : u < 0.78 ? 6 : u < 0.85 ? 3 : u < 0.9 ? 4 : u < 0.95 ? 5 : 8; }
  void enc_common(Rec &e, bool allow_many) {
    int ch = pick_ch(allow_many); long rate = pick_rate();
    e.set("ch", ch).set("rate", rate).set("sig", (int64_t)g.below(6)).setu("seed", g.below(1000));
    int how = (int)g.below(6); e.set("how", how).setf("q", g.chance(0.15) ? (g.chance(0.5) ? -0.1 : 1.0) : -0.1 + g.unit() * 1.1);
    long nom = (long)(rate * (0.7 + g.unit() * 2.0) * std::min(ch, 2)); e.set("nom", nom);
    if (how == 2 || how == 5) { e.set("max", g.chance(0.8) ? nom + (long)(nom * g.unit() * 0.6) : -1).set("min", g.chance(0.6) ? nom - (long)(nom * g.unit() * 0.6) : -1); }
    if (how == 4) e.set("ctl", (int64_t)g.below(40));
    if (ch >= 2 && ch <= 8 && g.chance(0.12)) e.set("mute", (int64_t)(1 + g.below((1u << ch) - 2)));
  }
  Plan make() {
    Rec &m = p.add("meta"); m.set("prop", c.prop).setu("seed", c.seed);
    if (c.prop == "C04") {
      m.set("mode", "conserve"); Rec &e = p.add("enc"); enc_common(e, true); int ch = (int)e.i("ch"); long bs1g = 2048;
      static const int64_t edge[] = {0, 1, 2, 3, 15, 16, 17, 31, 32, 33, 63, 64, 65, 127, 128, 129, 255, 256, 257, 511, 512, 513, 1023, 1024, 1025, 2047, 2048, 2049, 3071, 3072, 3073, 4095, 4096, 4097, 6143, 6144, 6145};
      double u = g.unit(); int64_t N = u < 0.45 ? edge[g.below(sizeof edge / sizeof edge[0])] : u < 0.8 ? g.range(1, 12000) : g.range(12000, thorough ? 200000 : 60000);
      if (ch > 8) N = std::min<int64_t>(N, 3000); else if (ch > 2) N = std::min<int64_t>(N, 120000 / ch); (void)bs1g;
      Rec &s = p.add("sched"); int part = (int)g.below(5); s.set("part", part).set("k", part == 2 ? (int64_t)g.range(1, 5000) : (int64_t)(g.chance(0.3) ? g.range(1, 64) : g.range(64, 8192)));
      N = std::min<int64_t>(N, 40000 * std::max<int64_t>(1, s.i("k")));   // at most ~40 000 writes per run (sample-at-a-time submission of minutes of audio is slow, not interesting, and looks like a loop to the watchdog)
      for (auto &r : p.recs) if (r.type == "enc") r.set("n", N);   // (`e` does not survive p.add)
      p.recs.back().setu("pseed", g.below(100000));
      p.recs.back().set("drain", (int64_t)g.below(3)).set("m", (int64_t)g.range(1, 40)).set("one", (int64_t)g.below(2));
      if (g.chance(0.3)) p.recs.back().set("direct", 1);
      int pol = (int)g.below(6); p.add("mux").set("pol", pol).set("k", pol == 1 ? (int64_t)g.range(1, 12) : pol == 4 ? (int64_t)g.range(1, 6) : pol == 5 ? (int64_t)g.range(200, 3000) : 4).set("serial", (int64_t)g.below(1 << 30));
      p.add("file").set("rdpol", (int64_t)g.below(5)).set("rdk", (int64_t)g.range(1, 3000)).setu("rdseed", g.below(100000));
      if (g.chance(0.15)) p.recs.back().set("ibytes", (int64_t)(g.chance(0.4) ? 4 : g.range(1, 5000)));
    } else if (c.prop == "C14") {
      m.set("mode", "rate"); Rec &e = p.add("enc");
      static const long rates[] = {8000, 11025, 16000, 22050, 32000, 44100, 48000, 44100, 96000}; long rate = rates[g.below(9)]; int ch = g.chance(0.35) ? 1 : g.chance(0.9) ? 2 : 6;
      long nom = (long)(rate * (0.7 + g.unit() * 2.2) * std::min(ch, 2));
      e.set("ch", ch).set("rate", rate).set("how", 5).set("nom", nom).setu("seed", g.below(1000));
      int lim = (int)g.below(4);   // 0 max only, 1 min only, 2 both, 3 CBR
      double tight = g.chance(0.4) ? 0.3 + g.unit() * 0.5 : 0.8 + g.unit() * 0.6;   // max below nominal forces truncation
      long mx = (long)(nom * (lim == 3 ? 1.0 : tight)), mn = (long)(nom * (lim == 3 ? 1.0 : 0.3 + g.unit() * 0.7));
      if (lim == 2 && mn > mx && !g.chance(0.15)) std::swap(mn, mx);   // (sometimes left as drawn: a hard minimum above the hard maximum has to be refused by the set-up or the control interface - whatever is accepted must hold)
      e.set("max", lim == 1 ? -1 : mx).set("min", lim == 0 ? -1 : mn);
      if (lim != 3 && g.chance(0.3)) e.set("nom", -1);
      double u = g.unit(); e.set("resv", u < 0.2 ? (int64_t)g.range(0, 4000) : u < 0.6 ? (int64_t)g.range(4000, 60000) : (int64_t)g.range(60000, 2 * nom)).setf("bias", g.chance(0.2) ? (g.chance(0.5) ? 0.0 : 1.0) : g.unit());
      if (g.chance(0.12)) { static const int64_t tiny[] = {0, 1, 8, 64, 128, 512, 1024}; e.set("resv", tiny[g.below(7)]); }
      if (g.chance(0.05)) { static const double ob[] = {-1.0, -0.01, 1.01, 2.0}; e.setf("bias", ob[g.below(4)]); }   // outside [0,1]: the control interface has to refuse it (whatever it accepts, the limits in force must hold)
      if (g.chance(0.12) && e.i("nom") > 0) { static const double win[] = {0.0, 1e-5, 0.001, 0.02, 0.2, 1.0, 3.0}; e.set("how", 6).setf("window", win[g.below(7)]).set("ctl", (int64_t)g.below(2)); e.erase("resv"); e.erase("bias"); }
      else if (g.chance(0.25)) { e.set("how", lim == 3 ? 3 : 2); e.erase("resv"); e.erase("bias"); if (lim == 3 && e.i("nom") <= 0) e.set("nom", nom); }   // limits handed straight to vorbis_encode_init, default reservoir
      bool stub = g.chance(0.5); e.set("stub", stub ? 1 : 0);
      if (stub) { e.set("pat", (int64_t)g.below(5)).setu("stubseed", g.below(100000)).set("sig", g.chance(0.5) ? 2 : 3).set("n", (int64_t)g.range(rate * 2, rate * (thorough ? 40 : 12))); }
      else e.set("sig", (int64_t)(g.chance(0.4) ? 3 : g.below(6))).set("n", (int64_t)g.range(rate * 2, rate * (thorough ? 8 : 4)) / (ch > 2 ? 3 : 1));
      // a hard maximum so low that a short block's allowance is less than a byte (the control interface accepts 1 kbit/s), on a signal that keeps the encoder on short blocks
      if (lim != 1 && e.i("how") == 5 && g.chance(0.07)) { static const int64_t lows[] = {500, 1000, 1500, 2000, 3000, 4000}; e.set("max", lows[g.below(6)]).set("min", -1).set("sig", 2); static const int64_t rv[] = {64, 128, 256, 1024, 4096}; e.set("resv", rv[g.below(5)]); }
    } else {
      m.set("mode", "lifecycle"); Rec &e = p.add("enc"); enc_common(e, true);
      if (g.chance(0.2)) { double u = g.unit(); if (u < 0.25) e.set("rate", g.chance(0.5) ? 0 : -44100); else if (u < 0.5) e.set("ch", g.chance(0.5) ? 0 : 256 + (int64_t)g.below(1000)); else if (u < 0.75) e.setf("q", g.chance(0.5) ? -5.0 : 7.5); else e.set("nom", g.chance(0.5) ? 1 : 2000000000); }
      int ch = (int)e.i("ch");
      if (g.chance(0.25)) e.set("multi", (int64_t)g.range(1, 2));
      if (g.chance(0.2)) e.set("hdrs", (int64_t)g.range(1, 2));
      if (g.chance(0.25)) e.set("chdr", 1);
      if (g.chance(0.4)) e.set("dspfirst", 1);
      e.set("abandon", (int64_t)g.below(5)).set("twice", (int64_t)g.below(2)).set("n", (int64_t)(ch > 8 ? g.range(0, 3000) : g.range(0, 20000))).set("poison", (int64_t)g.below(5)).setu("pseed", g.below(100000));
    }
    return p;
  }
};

struct EncEngine : Engine {
  const char *name() const override { return "encsim"; }
  Plan gen(const GenCfg &c) override { EncGen G(c); return G.make(); }
  std::vector<std::string> droppable() const override { return {}; }
  std::vector<Plan> simplify(const Plan &p) override {
    std::vector<Plan> out; auto with = [&](size_t i, std::function<void(Rec &)> f) { Plan q = p; f(q.recs[i]); if (q.str() != p.str()) out.push_back(q); };
    for (size_t i = 0; i < p.recs.size(); i++) { const Rec &r = p.recs[i];
      if (r.type == "sched") { with(i, [](Rec &x) { x.set("part", 0); }); with(i, [](Rec &x) { x.set("drain", 0); x.set("one", 0); }); with(i, [](Rec &x) { x.set("part", 1); x.set("k", 1024); }); }
      if (r.type == "mux") with(i, [](Rec &x) { x.set("pol", 0); });
      if (r.type == "file") with(i, [](Rec &x) { x.set("rdpol", 0); });
      if (r.type == "enc") { if (r.i("n") > 4) with(i, [](Rec &x) { x.set("n", x.i("n") / 2); }); if (r.i("ch") > 2) with(i, [](Rec &x) { x.set("ch", 2); x.erase("mute"); }); if (r.i("sig") != 1) with(i, [](Rec &x) { x.set("sig", 1); }); if (r.i("twice")) with(i, [](Rec &x) { x.set("twice", 0); }); if (r.has("mute")) with(i, [](Rec &x) { x.erase("mute"); }); }
    }
    return out;
  }
  Outcome exec(const Plan &p) override {
    EncRun R(p); Outcome o;
    try { R.run(); }
    catch (SimViolation &v) { o.violation = true; o.prop = v.prop; o.cls = v.cls; o.facts = v.facts; o.detail = v.detail; simalloc_forget_all(); }
    o.hash = R.h.h; o.nontrivial = R.nontrivial;
    return o;
  }
};
}  // namespace
Engine *make_encsim() { return new EncEngine(); }
