// vfsim.hpp — shared declarations for the vorbisfile engine (stream building from a plan, reference model).
#pragma once
#include "corpus.hpp"
#include "simfile.hpp"
extern "C" {
#include <vorbis/vorbisfile.h>
}

struct StreamRef {
  PhysStream ps;                        // intact physical stream and page table
  std::vector<uint8_t> bytes;           // what the SimFile serves (ps.bytes after PhysFaults)
  std::vector<int64_t> start;           // global start position of each link; back() = total
  int64_t total = 0;
  int nlinks = 0;
  std::vector<int64_t> boundaries;      // sorted global page-boundary positions (link starts and page granules)
  bool damaged = false;
  bool hole = false; int64_t hole_lo = 0, hole_hi = 0, hole_w = 0, hole_at = 0;   // hole_at: position of the last page in front of the gap (a reader meets the gap about there)
    // C11 at the vorbisfile level: exactly one audio page of an otherwise intact stream is lost/rejected/repeated; reads that end before hole_lo or start at/after hole_hi must be exact, position included
  bool has_bs64 = false;        // some link has 64-sample short blocks: switching half rate on must be refused
  bool bs64_rewritten = false;  // ... and it is a header-rewritten encoder link, whose positions are not consistent (DESIGN 13.2); a crafted link with genuine 64-sample blocks is exact
  bool ambiguous_cut = false;           // a cut link whose audio sits on a single page: start offset and end trim cannot be told apart from page granules
  std::vector<int64_t> goff;            // granule position at which each link's audio starts (0 unless cut / 64-sample rewrite)
  int link_of(int64_t pos) const {      // link containing sample pos (pos < total); for pos==total returns nlinks-1
    for (int i = 0; i < nlinks; i++) if (pos >= start[i] && pos < start[i + 1]) return i;
    return nlinks - 1;
  }
};

// plan -> stream (links from the corpus cache, mux policies, physical faults)
void build_stream(const Plan &plan, StreamRef &sr);
// page-level damage, applied by build_stream for every "pfault" record (defined in vfdamage.cpp)
void apply_pfaults(const Plan &plan, StreamRef &sr);

// recipe pool
Recipe pool_recipe(uint64_t master, uint64_t idx, bool allow_many_channels);
