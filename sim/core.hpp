// core.hpp — deterministic-simulation core shared by every engine.
//   Prng (one integer decides everything), trace hash, event clock, plan records,
//   outcome, stats, SimAlloc/coverage interfaces.
#pragma once
#include <cstdint>
#include <cstdio>
#include <cstdlib>
#include <cstring>
#include <cmath>
#include <string>
#include <vector>
#include <map>
#include <memory>
#include <sstream>
#include <algorithm>
#include <functional>

// ---------------------------------------------------------------- PRNG
static inline uint64_t splitmix64(uint64_t &x) {
  uint64_t z = (x += 0x9e3779b97f4a7c15ULL);
  z = (z ^ (z >> 30)) * 0xbf58476d1ce4e5b9ULL;
  z = (z ^ (z >> 27)) * 0x94d049bb133111ebULL;
  return z ^ (z >> 31);
}
static inline uint64_t mix64(uint64_t a, uint64_t b) {
  uint64_t x = a ^ (b * 0x9e3779b97f4a7c15ULL + 0x7f4a7c15ULL);
  splitmix64(x);
  return splitmix64(x);
}
static inline uint64_t label_hash(const char *s) {
  uint64_t h = 1469598103934665603ULL;
  while (*s) { h ^= (unsigned char)*s++; h *= 1099511628211ULL; }
  return h;
}
struct Prng {  // xoshiro256**
  uint64_t s[4];
  explicit Prng(uint64_t seed = 1) { reseed(seed); }
  void reseed(uint64_t seed) { uint64_t x = seed; for (auto &v : s) v = splitmix64(x); }
  static inline uint64_t rotl(uint64_t x, int k) { return (x << k) | (x >> (64 - k)); }
  uint64_t next() {
    uint64_t r = rotl(s[1] * 5, 7) * 9, t = s[1] << 17;
    s[2] ^= s[0]; s[3] ^= s[1]; s[1] ^= s[2]; s[0] ^= s[3]; s[2] ^= t; s[3] = rotl(s[3], 45);
    return r;
  }
  // independent sub-stream by label: does not advance this stream
  Prng fork(const char *label, uint64_t idx = 0) const { return Prng(mix64(mix64(s[0] ^ s[2], label_hash(label)), idx)); }
  uint64_t below(uint64_t n) { return n ? next() % n : 0; }
  int64_t range(int64_t lo, int64_t hi) { return hi <= lo ? lo : lo + (int64_t)below((uint64_t)(hi - lo + 1)); }
  bool chance(double p) { return (next() >> 11) * (1.0 / 9007199254740992.0) < p; }
  double unit() { return (next() >> 11) * (1.0 / 9007199254740992.0); }
  template <class T> const T &pick(const std::vector<T> &v) { return v[below(v.size())]; }
};

// ---------------------------------------------------------------- trace hash
struct Hasher {
  uint64_t h = 1469598103934665603ULL;
  void bytes(const void *p, size_t n) { const unsigned char *c = (const unsigned char *)p; for (size_t i = 0; i < n; i++) { h ^= c[i]; h *= 1099511628211ULL; } }
  void u64(uint64_t v) { bytes(&v, 8); }
  void i64(int64_t v) { bytes(&v, 8); }
  void str(const std::string &s) { bytes(s.data(), s.size()); u64(s.size()); }
  void f32s(const float *p, size_t n) { bytes(p, n * sizeof(float)); }
};

// ---------------------------------------------------------------- plan records
struct Rec {
  std::string type;
  std::vector<std::pair<std::string, std::string>> kv;
  const std::string *find(const std::string &k) const { for (auto &p : kv) if (p.first == k) return &p.second; return nullptr; }
  bool has(const std::string &k) const { return find(k) != nullptr; }
  std::string s(const std::string &k, const std::string &d = "") const { auto *p = find(k); return p ? *p : d; }
  int64_t i(const std::string &k, int64_t d = 0) const { auto *p = find(k); return p ? strtoll(p->c_str(), nullptr, 10) : d; }
  uint64_t u(const std::string &k, uint64_t d = 0) const { auto *p = find(k); return p ? strtoull(p->c_str(), nullptr, 10) : d; }
  double f(const std::string &k, double d = 0) const { auto *p = find(k); return p ? strtod(p->c_str(), nullptr) : d; }
  Rec &set(const std::string &k, const std::string &v) { for (auto &p : kv) if (p.first == k) { p.second = v; return *this; } kv.emplace_back(k, v); return *this; }
  Rec &set(const std::string &k, int64_t v) { return set(k, std::to_string(v)); }
  Rec &setu(const std::string &k, uint64_t v) { return set(k, std::to_string(v)); }
  Rec &setf(const std::string &k, double v) { char b[64]; snprintf(b, sizeof b, "%.17g", v); return set(k, std::string(b)); }
  void erase(const std::string &k) { kv.erase(std::remove_if(kv.begin(), kv.end(), [&](auto &p) { return p.first == k; }), kv.end()); }
  std::string str() const { std::string o = type; for (auto &p : kv) { o += ' '; o += p.first; o += '='; o += p.second; } return o; }
};
struct Plan {
  std::vector<Rec> recs;
  Rec &add(const std::string &type) { recs.emplace_back(); recs.back().type = type; return recs.back(); }
  const Rec *first(const std::string &type) const { for (auto &r : recs) if (r.type == type) return &r; return nullptr; }
  Rec *firstm(const std::string &type) { for (auto &r : recs) if (r.type == type) return &r; return nullptr; }
  std::vector<const Rec *> all(const std::string &type) const { std::vector<const Rec *> v; for (auto &r : recs) if (r.type == type) v.push_back(&r); return v; }
  size_t count(const std::string &type) const { size_t n = 0; for (auto &r : recs) if (r.type == type) n++; return n; }
  std::string str() const { std::string o; for (auto &r : recs) { o += r.str(); o += '\n'; } return o; }
  static Plan parse(const std::string &text) {
    Plan p; std::istringstream in(text); std::string line;
    while (std::getline(in, line)) {
      if (line.empty() || line[0] == '#') continue;
      std::istringstream ls(line); std::string tok; Rec r; bool firsttok = true;
      while (ls >> tok) {
        if (firsttok) { r.type = tok; firsttok = false; continue; }
        auto eq = tok.find('='); if (eq == std::string::npos) r.kv.emplace_back(tok, ""); else r.kv.emplace_back(tok.substr(0, eq), tok.substr(eq + 1));
      }
      if (!r.type.empty()) p.recs.push_back(r);
    }
    return p;
  }
};

// ---------------------------------------------------------------- outcome
struct Outcome {
  bool violation = false;
  std::string prop;    // property the violated oracle clause belongs to
  std::string cls;     // <prop>/<site>/<symptom>
  std::map<std::string, std::string> facts;
  std::string detail;  // free text for humans
  uint64_t hash = 0;   // trace hash
  bool nontrivial = false;
  // known-finding-style observations that end checking of the run early are reported the same way
  std::string line() const {
    std::string o = violation ? "V " : "OK ";
    char b[32]; snprintf(b, sizeof b, "%016llx", (unsigned long long)hash);
    o += b; o += nontrivial ? " nt=1" : " nt=0";
    if (violation) { o += " cls=" + cls; for (auto &f : facts) o += " " + f.first + "=" + f.second; }
    return o;
  }
};

// ---------------------------------------------------------------- statistics (counted where the effect happens)
struct Stats {
  std::map<std::string, uint64_t> c;
  void inc(const std::string &k, uint64_t n = 1) { c[k] += n; }
  void max(const std::string &k, uint64_t v) { auto &x = c[k]; if (v > x) x = v; }
  void merge(const Stats &o) { for (auto &p : o.c) { if (p.first.rfind("max.", 0) == 0) max(p.first, p.second); else c[p.first] += p.second; } }
};
extern Stats g_stats;

// ---------------------------------------------------------------- global simulation state
struct SimViolation {  // thrown by oracles / seams to end a run with a verdict
  std::string prop, cls, detail; std::map<std::string, std::string> facts;
};
struct SimState {
  uint64_t events = 0;        // the simulated clock: every seam event ticks it
  uint64_t op_events = 0;     // events since the current API call started
  uint64_t op_budget = 0;     // 0 = unlimited
  int cur_op = -1;
  std::string cur_op_name;
  bool alloc_active = false;
  uint64_t poison_seed = 0; int poison_mode = 0;
  uint64_t edges = 0;         // executed CFG edges (libvorbis only)
};
extern SimState g_sim;
void sim_tick(const char *what);  // ticks the clock; aborts the run (exit code) on budget exhaustion

// SimAlloc
void simalloc_begin(uint64_t poison_seed, int poison_mode);
struct LedgerReport { size_t live_blocks = 0; size_t live_bytes = 0; size_t peak_bytes = 0; size_t max_request = 0; uint64_t allocs = 0, frees = 0; int foreign_free = 0; std::string first_leak; };
LedgerReport simalloc_end();       // deactivates; reports what is still live
LedgerReport simalloc_peek();      // while active
void simalloc_forget_all();        // after a verdict: stop tracking (blocks stay allocated)
void stack_scribble(int mode, uint64_t seed);
void stack_scribble_small(int mode, uint64_t seed);
int simalloc_task();               // current task id for ledger (0 in single-task engines)
void simalloc_set_task(int t);

// coverage (trace-pc-guard)
size_t cov_total();
size_t cov_count();                // distinct edges hit so far in this process
void cov_snapshot(std::vector<uint8_t> &out);
extern "C" void sched_edge_hook(); // called at every libvorbis CFG edge when scheduling is enabled
extern volatile int g_sched_enabled;
const char *last_pc_function();

// exit codes used by a run that cannot return normally
enum { EXIT_ASAN = 77, EXIT_WATCHDOG = 78, EXIT_BUDGET = 79, EXIT_SIGNAL = 80, EXIT_LIBEXIT = 81 };
void emergency_report(const char *kind, const char *what);  // async-signal-safe-ish: writes one line to the result fd and _exit()s
extern int g_result_fd;
void watchdog_rearm();          // restart the per-run CPU watchdog (no-op semantics for the verdict: it can only kill a hung run)

// helpers
std::string json_escape(const std::string &s);
static inline std::string fmt(const char *f, ...) __attribute__((format(printf, 1, 2)));
#include <cstdarg>
static inline std::string fmt(const char *f, ...) { char b[2048]; va_list ap; va_start(ap, f); vsnprintf(b, sizeof b, f, ap); va_end(ap); return b; }

// ---------------------------------------------------------------- engine interface
struct GenCfg { std::string prop; std::string tier; uint64_t seed; uint64_t master; };
struct Engine {
  virtual ~Engine() {}
  virtual const char *name() const = 0;
  virtual Plan gen(const GenCfg &) = 0;
  virtual void prepare(const Plan &) {}           // warm caches (outside the isolated child)
  // the plan a run is replaced by when producing its corpus killed the probe process (corpus.hpp): nothing but the offending link
  virtual Plan refcrash_plan(const GenCfg &c, const Rec &link) { Plan p; p.add("meta").set("prop", c.prop).setu("seed", c.seed).set("mode", "refcrash"); Rec &a = p.add("link"); a = link; a.type = "link"; return p; }
  virtual Outcome exec(const Plan &) = 0;         // one simulated run; returns verdict
  // one-step simplifications other than dropping droppable records, most aggressive first
  virtual std::vector<Plan> simplify(const Plan &) { return {}; }
  virtual std::vector<std::string> droppable() const { return {"op"}; }
  virtual bool valid(const Plan &) { return true; }
  // a plan that stands for a family of executions (per-scenario fault enumeration) is replaced by the one member that failed before shrinking
  virtual Plan concretise(const Plan &p, const Outcome &) { return p; }
};
Engine *make_vfsim();
Engine *make_pktsim();
Engine *make_encsim();
Engine *make_ratesim();
Engine *make_mtsim();
