// corpus.hpp — logical streams produced by the real encoder, reference decodes, and the page muxer.
#pragma once
#include "core.hpp"
extern "C" {
#include <ogg/ogg.h>
#include <vorbis/codec.h>
#include <vorbis/vorbisenc.h>
}

struct Pkt {
  std::vector<uint8_t> data;
  int64_t granule = -1;
  bool bos = false, eos = false;
  int64_t packetno = 0;
  long bs = 0;  // block size of an audio packet (0 for headers)
};

struct Recipe {
  int ch = 2; long rate = 44100; double q = 0.4;
  int mode = 0;         // 0 VBR(q) 1 managed nominal-only 2 managed min/nominal/max 3 constant
  long nominal = 0;     // bits/s for managed modes
  int64_t n = 20000;    // samples per channel submitted
  int sig = 0;          // signal kind
  uint64_t seed = 1;
  int ncomm = 2;        // user comments
  int bs64 = 0;         // patch short block size to 64 in the ID header (C20 refusal clause only)
  int trim = 0, tk = 3;  // trim>0: a sample-accurately cut start ("short first page"): only every tk-th packet and the last carry a granule position, all lowered by trim
  int craft = 0;        // != 0: not encoded but written bit by bit from the specification (craft.cpp): seeded legal set-up headers of kinds the encoder never emits, noise packets; n = number of audio packets
  int modes3 = 0;       // declare a third mode (a copy of the long-block mode) and let every other long packet use it: a legal stream with a non-power-of-two mode count that the bundled encoder never writes
  int mute = 0;         // bit c set: channel c is digital silence (coupled pairs with one silent channel take their own decode paths)
  int cut = 0;          // leading audio packets removed after encoding: a stream cut at a packet boundary, whose positions start at a non-zero granule
  int chunk = 1024;     // analysis_wrote chunk used when producing the link (not semantically relevant)
  std::string key() const;
  void to(Rec &r) const;
  static Recipe from(const Rec &r);
};

struct Link {
  Recipe r;
  bool ok = false;             // encoder set-up succeeded
  std::vector<Pkt> hdr;        // 3 header packets
  std::vector<Pkt> audio;      // audio packets with the encoder's granule positions
  long bs0 = 0, bs1 = 0;
  // reference decode: the link decoded on its own through the packet-level API
  std::vector<std::vector<float>> pcm;      // [channel][sample]
  std::vector<int> chunk;                   // samples returned after packet j
  int64_t len = 0;                          // samples per channel delivered by the reference decode
  std::vector<std::vector<float>> pcm_half; // half-rate reference (lazy)
  int64_t len_half = -1;
  bool half_ok = false;
  std::string vendor; std::vector<std::string> comments;
  int ref_err = 0;                          // first negative return of the packet-level reference decode
  bool ref_reject = false;                  // the packet-level decoder refused what the encoder had just produced (see get_link)
  bool ref_crash = false;                   // the reference decode crashed or hung in the probe process (see get_link)
};

// the seeded test signal of a recipe, sample by sample (deterministic in (recipe, channel, t))
struct Signal { explicit Signal(const Recipe &r); ~Signal(); float at(int c, int64_t t); private: void *impl; Signal(const Signal &) = delete; };
ogg_packet pkt_to_op(const Pkt &p);
Pkt pkt_from_op(const ogg_packet &op);

void craft_link(Link &l);
// Corpus production runs library code too (the reference decode). It is done in a short-lived probe process first; when that dies the link is
// marked, generators stop using it, the run at hand is replaced by a minimal plan naming just this link (main.cpp), and inside an execution
// (g_in_exec) the decode is repeated unguarded so that the failure happens inside a run, where it is attributed, minimised and replayed.
extern bool g_in_exec; extern bool g_ref_crash_seen; extern Recipe g_ref_crash_recipe; extern std::string g_exec_prop;
std::shared_ptr<Link> get_link(const Recipe &r);   // cached per process
void ensure_half(Link &l);
// decode a packet list through the packet-level API; returns per-channel pcm and per-packet chunk sizes.
// granule_mode: 0 = as given in the packets
int decode_packets(const std::vector<Pkt> &hdr, const std::vector<Pkt> &audio, int halfrate,
                   std::vector<std::vector<float>> &pcm, std::vector<int> *chunks);

// ---------------------------------------------------------------- physical stream
struct PageInfo {
  int64_t off = 0; int len = 0; int hlen = 0;
  long serial = 0; int64_t granule = -1; long pageno = 0;
  bool bos = false, eos = false, cont = false;
  int link = -1;           // index of the Vorbis link (or -1 for a foreign stream)
  int completed = 0;       // packets completed on this page
  bool header = false;     // carries header packets
};
struct MuxPolicy {
  int policy = 0;   // 0 libogg default; 1 flush every k packets; 2 one packet per page; 3 fill pages to the 255-segment limit; 4 at most k segments per page (forces continued packets); 5 body byte limit k
  int k = 4;
  long serial = 1000;
  int foreign_bos_first = 0;   // the foreign stream's beginning-of-stream page comes before ours (Ogg: the BOS pages of a group may come in any order)
  int foreign_mode = 1;   // 1: the foreign stream ends before our last page; 2: its remaining pages (and its end-of-stream page) come after ours; 3: like 2, plus a second one-page foreign stream among the beginning-of-stream pages
};
struct PhysStream {
  std::vector<uint8_t> bytes;
  std::vector<PageInfo> pages;
  std::vector<std::shared_ptr<Link>> links;
  std::vector<long> serials;
  std::vector<int64_t> link_off;       // byte offset of each link's first page; back() = file size
  std::vector<int64_t> data_off;       // byte offset of each link's first audio page
  int max_page = 0;
};
// page writer under our control (independent of ogg_stream_pageout so that every legal layout can be produced)
void mux_link(PhysStream &ps, std::shared_ptr<Link> l, const MuxPolicy &mp, const std::vector<Pkt> *foreign = nullptr, long foreign_serial = 0);
void build_page(std::vector<uint8_t> &out, long serial, long pageno, int64_t granule, bool cont, bool bos, bool eos,
                const std::vector<uint8_t> &lacing, const uint8_t *body, size_t bodylen);
void reseal_page(uint8_t *page, size_t len);    // recompute CRC in place
bool parse_pages(const std::vector<uint8_t> &bytes, std::vector<PageInfo> &out);  // strict walk of intact bytes
