// main.cpp — worker loop, isolated execution, shrinking, replay files.
#include "core.hpp"
#include "corpus.hpp"
#include <unistd.h>
#include <fcntl.h>
#include <signal.h>
#include <sys/wait.h>
#include <sys/time.h>
#include <sys/stat.h>
#include <time.h>
#include <set>

extern "C" {
void __real__exit(int) __attribute__((noreturn));
void __sanitizer_set_death_callback(void (*)(void));
// sanitizer hits must be classifiable: distinct exit code, no leak checker (the Ledger is the leak oracle)
__attribute__((used)) const char *__asan_default_options() {
  return "exitcode=77:detect_leaks=0:abort_on_error=0:handle_abort=1:allocator_may_return_null=1:detect_stack_use_after_return=0:max_malloc_fill_size=0:quarantine_size_mb=24:symbolize=1:fast_unwind_on_malloc=1:malloc_context_size=2";
}
__attribute__((used)) const char *__ubsan_default_options() { return "print_stacktrace=1:halt_on_error=1:exitcode=77"; }
}

static std::string g_tmpdir = "/verif/build/tmp";
static int g_cpu_budget = 30;
static double g_shrink_seconds = 60;
static double now_s() { struct timespec ts; clock_gettime(CLOCK_MONOTONIC, &ts); return ts.tv_sec + ts.tv_nsec * 1e-9; }
static void on_prof(int) { emergency_report("WATCHDOG", last_pc_function()); }
static void watchdog_arm(int seconds) {
  struct itimerval it; memset(&it, 0, sizeof it); it.it_value.tv_sec = seconds; setitimer(ITIMER_PROF, &it, nullptr);
}
void watchdog_rearm() { watchdog_arm(g_cpu_budget); }   // engines that execute several simulated runs per plan give each its own CPU budget
static void death_cb() { const char m[] = "\nEMERGENCY kind=SANITIZER\n"; ssize_t r = write(g_result_fd, m, sizeof m - 1); (void)r; }

static Engine *engine_by_name(const std::string &n) {
  if (n == "vfsim") return make_vfsim();
  if (n == "pktsim") return make_pktsim();
  if (n == "encsim") return make_encsim();
  if (n == "ratesim") return make_ratesim();
  if (n == "mtsim") return make_mtsim();
  fprintf(stderr, "unknown engine %s\n", n.c_str()); __real__exit(2);
}


static Outcome parse_outcome_line(const std::string &line) {
  Outcome o; std::istringstream ls(line); std::string tok; ls >> tok; o.violation = (tok == "V");
  ls >> tok; o.hash = strtoull(tok.c_str(), nullptr, 16);
  while (ls >> tok) {
    auto eq = tok.find('='); if (eq == std::string::npos) continue;
    std::string k = tok.substr(0, eq), v = tok.substr(eq + 1);
    if (k == "nt") o.nontrivial = v == "1"; else if (k == "cls") { o.cls = v; o.prop = v.substr(0, v.find('/')); } else o.facts[k] = v;
  }
  return o;
}

static std::string slurp(const std::string &path) { FILE *f = fopen(path.c_str(), "rb"); if (!f) return ""; std::string s; char b[4096]; size_t n; while ((n = fread(b, 1, sizeof b, f)) > 0) s.append(b, n); fclose(f); return s; }

// classify a dead child from its stderr (sanitizer report) and the emergency line
static Outcome classify_death(const std::string &prop, int status, const std::string &pipe_text, const std::string &err) {
  Outcome o; o.violation = true; o.prop = prop;
  std::string kind = "unknown", func = "-";
  auto find_func = [&](const std::string &t) {
    size_t p = 0;
    while ((p = t.find(" in ", p)) != std::string::npos) {
      size_t e = t.find(' ', p + 4); if (e == std::string::npos) break;
      std::string fn = t.substr(p + 4, e - (p + 4)); size_t le = t.find('\n', e); std::string rest = t.substr(e + 1, le == std::string::npos ? std::string::npos : le - e - 1);
      if (rest.find("/repo/lib/") != std::string::npos) return fn;
      p = e;
    }
    return std::string("-");
  };
  size_t p;
  if ((p = pipe_text.find("EMERGENCY kind=")) != std::string::npos && pipe_text.compare(p + 15, 9, "SANITIZER") != 0) {
    std::istringstream ls(pipe_text.substr(p)); std::string tok;
    while (ls >> tok) { auto eq = tok.find('='); if (eq == std::string::npos) continue; std::string k = tok.substr(0, eq), v = tok.substr(eq + 1); if (k == "kind") kind = v; else if (k == "what") func = v; else if (k == "opname") o.facts["op"] = v; }
    if (kind == "WATCHDOG") kind = "cpu-loop"; else if (kind == "BUDGET") kind = "event-budget"; else if (kind == "LIBEXIT") kind = "process-exit";
    if (kind == "event-budget") { o.facts["seam"] = func; func = "-"; }
  } else if ((p = err.find("ERROR: AddressSanitizer: ")) != std::string::npos) {
    size_t s = p + 25, e = err.find_first_of(" \n", s); kind = err.substr(s, e - s);
    if (kind == "attempting") { kind = err.find("double-free", s) != std::string::npos && err.find("double-free", s) < s + 40 ? "double-free" : "bad-free"; }
    if (kind == "requested") kind = "alloc-too-big";
    if (kind == "SEGV" || kind == "stack-overflow" || kind == "FPE" || kind == "BUS") {}
    func = find_func(err.substr(p));
  } else if ((p = err.find("runtime error: ")) != std::string::npos) {
    std::string m = err.substr(p + 15, 40);
    kind = m.find("division by zero") == 0 ? "div-by-zero" : m.find("index") == 0 ? "index-oob" : "ubsan";
    func = find_func(err.substr(p));
  } else if (WIFSIGNALED(status)) { kind = fmt("signal-%d", WTERMSIG(status)); }
  else kind = fmt("exit-%d", WIFEXITED(status) ? WEXITSTATUS(status) : -1);
  o.cls = prop + "/crash/" + kind; o.facts["func"] = func;
  o.detail = err.size() > 3000 ? err.substr(0, 3000) : err;
  return o;
}

struct InExec { explicit InExec(const Plan &p) { g_in_exec = true; const Rec *m = p.first("meta"); g_exec_prop = m ? m->s("prop", "") : ""; } ~InExec() { g_in_exec = false; } };
// generation with the corpus guard: when producing a link killed the probe process, the run is about that link and nothing else
static Plan gen_guarded(Engine *e, const GenCfg &cfg) {
  g_ref_crash_seen = false; Plan p = e->gen(cfg);
  if (g_ref_crash_seen) { Rec lr; lr.type = "link"; g_ref_crash_recipe.to(lr); g_stats.inc("corpus.runs_replaced_by_refcrash_plan"); g_ref_crash_seen = false; return e->refcrash_plan(cfg, lr); }
  return p;
}
// Runs executed earlier in the same process are part of a run's history when the code under test keeps state outside its objects (a static
// cache, a table initialised by the first caller). A violation that does not reproduce in a fresh process is retried with such earlier runs as a
// prelude (executed first in the same child, outcome ignored); the replay file then carries the prelude plans in front of the plan, separated
// by "planbreak" records, and replays exactly like any other.
static std::vector<Plan> g_prelude;
static Plan g_first_plan, g_prev_plan; static bool g_have_first = false, g_have_prev = false;
static Outcome exec_isolated(Engine *e, const Plan &plan, const std::string &prop) {
  for (auto &pp : g_prelude) e->prepare(pp);
  e->prepare(plan);
  int pfd[2]; if (pipe(pfd)) { perror("pipe"); __real__exit(2); }
  mkdir(g_tmpdir.c_str(), 0777);
  std::string errpath = fmt("%s/err.%d", g_tmpdir.c_str(), (int)getpid());
  fflush(stdout); fflush(stderr);
  pid_t pid = fork();
  if (pid == 0) {
    close(pfd[0]); g_result_fd = pfd[1];
    int efd = open(errpath.c_str(), O_WRONLY | O_CREAT | O_TRUNC, 0666); if (efd >= 0) { dup2(efd, 2); close(efd); }
    signal(SIGPROF, on_prof); watchdog_arm(g_cpu_budget);
    InExec inexec(plan);
    for (auto &pp : g_prelude) { Outcome po = e->exec(pp); (void)po; watchdog_arm(g_cpu_budget); }
    Outcome o = e->exec(plan); if (!g_prelude.empty() && o.violation) o.facts["needs_history"] = "1";
    std::string d = o.detail; for (auto &ch : d) if (ch == '\n') ch = '|';
    std::string l = "D " + d + "\n" + o.line() + "\n"; ssize_t r = write(pfd[1], l.data(), l.size()); (void)r;
    __real__exit(0);
  }
  close(pfd[1]);
  std::string text; char b[4096]; ssize_t n;
  while ((n = read(pfd[0], b, sizeof b)) > 0) text.append(b, (size_t)n);
  close(pfd[0]);
  int status = 0; waitpid(pid, &status, 0);
  Outcome o;
  size_t lp = text.rfind("\nOK "), lv = text.rfind("\nV ");
  if (text.compare(0, 3, "OK ") == 0 && lp == std::string::npos) lp = 0; else if (lp != std::string::npos) lp++;
  if (text.compare(0, 2, "V ") == 0 && lv == std::string::npos) lv = 0; else if (lv != std::string::npos) lv++;
  if (WIFEXITED(status) && WEXITSTATUS(status) == 0 && (lp != std::string::npos || lv != std::string::npos)) {
    size_t s = lv != std::string::npos ? lv : lp; size_t e2 = text.find('\n', s);
    o = parse_outcome_line(text.substr(s, e2 - s));
    size_t dp = text.rfind("D ", s); if (dp != std::string::npos && (dp == 0 || text[dp - 1] == '\n')) { size_t de = text.find('\n', dp); o.detail = text.substr(dp + 2, de - dp - 2); }
  } else {
    o = classify_death(prop, status, text, slurp(errpath));
  }
  unlink(errpath.c_str());
  return o;
}

static bool same_class(const Outcome &a, const Outcome &b) { return a.violation && b.violation && a.cls == b.cls; }

struct Shrinker {
  Engine *e; std::string prop; Outcome target; int execs = 0; int max_execs = 400; double deadline;
  bool test(const Plan &p, Outcome *out = nullptr) {
    if (execs >= max_execs || now_s() > deadline) return false;
    if (!e->valid(p)) return false;
    execs++; Outcome o = exec_isolated(e, p, prop);
    bool ok = same_class(o, target); if (ok && out) *out = o; return ok;
  }
  Plan run(Plan cur) {
    bool progress = true;
    // a hang costs the whole CPU budget per candidate: while shrinking a hang, use a short leash (typical runs take < 0.2 s);
    // the minimised plan is re-verified under the full budget afterwards
    int saved_budget = g_cpu_budget; if (target.cls.find("cpu-loop") != std::string::npos) g_cpu_budget = std::min(g_cpu_budget, 4);
    struct Restore { int &r; int v; ~Restore() { r = v; } } restore{g_cpu_budget, saved_budget};
    while (progress && execs < max_execs && now_s() < deadline) {
      progress = false;
      // ddmin-style removal over each droppable record type
      for (auto &type : e->droppable()) {
        std::vector<size_t> idx; for (size_t i = 0; i < cur.recs.size(); i++) if (cur.recs[i].type == type) idx.push_back(i);
        size_t chunk = idx.size();
        while (chunk >= 1 && !idx.empty()) {
          bool removed = false;
          for (size_t start = 0; start < idx.size();) {
            size_t end = std::min(idx.size(), start + chunk);
            Plan cand; std::set<size_t> drop(idx.begin() + start, idx.begin() + end);
            for (size_t i = 0; i < cur.recs.size(); i++) if (!drop.count(i)) cand.recs.push_back(cur.recs[i]);
            if (test(cand)) { cur = cand; idx.clear(); for (size_t i = 0; i < cur.recs.size(); i++) if (cur.recs[i].type == type) idx.push_back(i); removed = true; progress = true; }
            else start = end;
            if (execs >= max_execs) break;
          }
          if (execs >= max_execs) break;
          if (!removed) { if (chunk == 1) break; chunk = (chunk + 1) / 2; } else if (chunk > idx.size()) chunk = idx.size();
          if (chunk == 0) break;
        }
      }
      // engine-specific simplifications
      bool again = true; int guard = 0;
      while (again && guard++ < 50 && execs < max_execs) {
        again = false;
        for (auto &cand : e->simplify(cur)) { if (cand.str() == cur.str()) continue; if (test(cand)) { cur = cand; again = true; progress = true; break; } }
      }
    }
    return cur;
  }
};

static std::string write_replay(const std::string &dir, const std::string &engine, const Plan &p, const Outcome &o, uint64_t seed) {
  mkdir(dir.c_str(), 0777);
  std::string cls = o.cls; for (auto &c : cls) if (c == '/' || c == ' ') c = '_';
  std::string path = fmt("%s/%s-%llu-%s.replay", dir.c_str(), o.prop.c_str(), (unsigned long long)seed, cls.c_str());
  FILE *f = fopen(path.c_str(), "w"); if (!f) return "";
  fprintf(f, "# replay file: deterministic simulation run, minimised\n");
  fprintf(f, "engine name=%s\n", engine.c_str());
  std::string ex = "expect cls=" + o.cls + fmt(" hash=%016llx", (unsigned long long)o.hash); for (auto &kv : o.facts) ex += " " + kv.first + "=" + kv.second;
  fprintf(f, "%s\n", ex.c_str());
  for (auto &pp : g_prelude) { fprintf(f, "# earlier run of the same process (its outcome is not judged; it leaves the state the run below depends on)\n"); fputs(pp.str().c_str(), f); fprintf(f, "planbreak\n"); }
  fputs(p.str().c_str(), f);
  if (!o.detail.empty()) { fprintf(f, "# detail:\n"); std::istringstream ds(o.detail); std::string l; int n = 0; while (std::getline(ds, l) && n++ < 60) fprintf(f, "#   %s\n", l.c_str()); }
  fclose(f); return path;
}

static Outcome fresh_replay(const std::string &path) {
  std::string cmd = fmt("/proc/self/exe replay '%s' --tmpdir '%s' --cpu-budget %d 2>/dev/null", path.c_str(), g_tmpdir.c_str(), g_cpu_budget);
  char self[4096]; ssize_t n = readlink("/proc/self/exe", self, sizeof self - 1); if (n > 0) { self[n] = 0; cmd = fmt("'%s' replay '%s' --tmpdir '%s' --cpu-budget %d 2>/dev/null", self, path.c_str(), g_tmpdir.c_str(), g_cpu_budget); }
  fflush(stdout); FILE *f = popen(cmd.c_str(), "r"); Outcome o; if (!f) return o;
  char line[8192]; while (fgets(line, sizeof line, f)) { if (!strncmp(line, "REPLAY ", 7)) { std::string l = line + 7; while (!l.empty() && (l.back() == '\n' || l.back() == '\r')) l.pop_back(); o = parse_outcome_line(l); } }
  pclose(f); return o;
}

static std::string facts_str(const Outcome &o) { std::string s; for (auto &kv : o.facts) s += " " + kv.first + "=" + kv.second; return s; }

// returns false when the violation did not reproduce (machinery error)
static bool handle_violation(Engine *e, const std::string &engine, const Plan &plan, const Outcome *inproc, const std::string &prop, uint64_t seed, const std::string &replaydir, bool do_shrink) {
  double t0 = now_s();
  g_prelude.clear();
  Outcome o1 = exec_isolated(e, plan, prop);
  struct ClearPrelude { ~ClearPrelude() { g_prelude.clear(); } } clear_prelude;
  if (!o1.violation) { printf("FLAKY seed=%llu first=%s second=OK\n", (unsigned long long)seed, inproc ? inproc->cls.c_str() : "crash"); fflush(stdout); return false; }
  // The verdict (violation class + facts) must reproduce. The full trace hash normally does too; it legitimately does not when the code
  // under test lets uninitialised stack contents (return addresses, saved pointers: ASLR-dependent) reach its output - which is itself
  // a symptom the properties care about. Such violations are reported with trace_stable=0 instead of being discarded as machinery errors.
  bool trace_stable = true;
  if (inproc && inproc->cls != o1.cls) { printf("FLAKY seed=%llu first=%s/%016llx second=%s/%016llx\n", (unsigned long long)seed, inproc->cls.c_str(), (unsigned long long)inproc->hash, o1.cls.c_str(), (unsigned long long)o1.hash); fflush(stdout); return false; }
  if (inproc && inproc->hash != o1.hash) trace_stable = false;
  Plan minp = plan;
  { Plan cp = e->concretise(plan, o1); if (cp.str() != plan.str()) { Outcome oc = exec_isolated(e, cp, prop); if (same_class(oc, o1)) { minp = cp; o1 = oc; } } }
  Plan start = minp;
  int execs = 0;
  if (do_shrink) { Shrinker s{e, prop, o1}; s.deadline = now_s() + g_shrink_seconds; minp = s.run(start); execs = s.execs; }
  Outcome a = exec_isolated(e, minp, prop), b = exec_isolated(e, minp, prop);
  if (do_shrink && (!same_class(a, o1) || !same_class(b, o1))) { minp = start; a = exec_isolated(e, minp, prop); b = exec_isolated(e, minp, prop); }   // fall back to the unshrunk plan
  if (same_class(a, o1) && same_class(b, o1) && a.hash != b.hash) trace_stable = false;
  if (!same_class(a, o1) || !same_class(b, o1)) { printf("FLAKY seed=%llu minimised replay unstable %s/%016llx vs %s/%016llx\n", (unsigned long long)seed, a.cls.c_str(), (unsigned long long)a.hash, b.cls.c_str(), (unsigned long long)b.hash); fflush(stdout); return false; }
  std::string path = write_replay(replaydir, engine, minp, a, seed);
  // The forked executions above inherit this process's memory, including whatever the code under test keeps outside its objects. The replay file
  // must stand on its own: it is executed once more by a freshly started process, and when the violation is not there, earlier runs of this
  // process (the previous one, the first one, both) are put in front of the plan as a prelude until a fresh process reproduces it.
  { Outcome fr = fresh_replay(path);
    if (!same_class(fr, a)) {
      std::vector<std::vector<Plan>> cands; bool found = false;
      if (g_have_prev) cands.push_back({g_prev_plan}); if (g_have_first) cands.push_back({g_first_plan}); if (g_have_first && g_have_prev) cands.push_back({g_first_plan, g_prev_plan});
      for (auto &c : cands) { g_prelude = c; a.facts["needs_history"] = "1"; path = write_replay(replaydir, engine, minp, a, seed); fr = fresh_replay(path); if (same_class(fr, a)) { found = true; g_stats.inc("violations.reproduced_only_with_process_history"); break; } }
      if (!found) { unlink(path.c_str()); printf("FLAKY seed=%llu %s reproduces in forked copies of this process but not in a fresh one, with or without the previous/first run as history\n", (unsigned long long)seed, a.cls.c_str()); fflush(stdout); return false; }
    } }
  printf("VIOL prop=%s cls=%s replay=%s hash=%016llx seed=%llu recs_before=%zu recs_after=%zu shrink_execs=%d shrink_s=%.1f trace_stable=%d%s\n", a.prop.c_str(), a.cls.c_str(), path.c_str(), (unsigned long long)a.hash,
         (unsigned long long)seed, plan.recs.size(), minp.recs.size(), execs, now_s() - t0, trace_stable ? 1 : 0, facts_str(a).c_str());
  if (!a.detail.empty()) { std::string d = a.detail.substr(0, 400); for (auto &c : d) if (c == '\n') c = '|'; printf("DETAIL %s\n", d.c_str()); }
  fflush(stdout);
  return true;
}

static std::string arg(int argc, char **argv, const char *name, const char *def) { for (int i = 1; i + 1 < argc; i++) if (!strcmp(argv[i], name)) return argv[i + 1]; return def; }
static bool flag(int argc, char **argv, const char *name) { for (int i = 1; i < argc; i++) if (!strcmp(argv[i], name)) return true; return false; }

int main(int argc, char **argv) {
  if (argc < 2) { fprintf(stderr, "usage: simvorbis run|replay|gen ...\n"); return 2; }
  std::string cmd = argv[1];
  setvbuf(stdout, nullptr, _IOLBF, 0);
  __sanitizer_set_death_callback(death_cb);
  g_tmpdir = arg(argc, argv, "--tmpdir", "/verif/build/tmp");
  g_cpu_budget = atoi(arg(argc, argv, "--cpu-budget", "30").c_str());
  g_shrink_seconds = atof(arg(argc, argv, "--shrink-seconds", "60").c_str());

  if (cmd == "replay") {
    if (argc < 3) return 2;
    std::string text = slurp(argv[2]); if (text.empty()) { fprintf(stderr, "cannot read %s\n", argv[2]); return 2; }
    Plan all = Plan::parse(text); Plan p; std::string engine; Rec expect;
    for (auto &r : all.recs) { if (r.type == "engine") engine = r.s("name"); else if (r.type == "expect") expect = r; else if (r.type == "planbreak") { g_prelude.push_back(p); p = Plan(); } else p.recs.push_back(r); }
    Engine *e = engine_by_name(engine);
    const Rec *meta = p.first("meta"); std::string prop = meta ? meta->s("prop") : "C00";
    if (flag(argc, argv, "--inproc")) { signal(SIGPROF, on_prof); watchdog_arm(g_cpu_budget); e->prepare(p); InExec inexec(p); Outcome o = e->exec(p); printf("REPLAY %s\n", o.line().c_str()); if (!o.detail.empty()) printf("DETAIL %s\n", o.detail.c_str()); return o.violation ? 1 : 0; }
    Outcome o = exec_isolated(e, p, prop);
    printf("REPLAY %s\n", o.line().c_str());
    if (o.violation && !o.detail.empty()) { std::string d = o.detail.substr(0, 1500); printf("DETAIL %s\n", d.c_str()); }
    return o.violation ? 1 : 0;
  }

  if (cmd == "dump") { extern void vfsim_dump(const Plan &, const char *); if (argc < 4) return 2; vfsim_dump(Plan::parse(slurp(argv[2])), argv[3]); return 0; }
  std::string engine = arg(argc, argv, "--engine", "vfsim");
  GenCfg cfg; cfg.prop = arg(argc, argv, "--prop", "C07"); cfg.tier = arg(argc, argv, "--tier", "quick");
  cfg.master = strtoull(arg(argc, argv, "--seed", "1").c_str(), nullptr, 10);
  Engine *e = engine_by_name(engine);

  if (cmd == "gen") {
    uint64_t r = strtoull(arg(argc, argv, "--run", "0").c_str(), nullptr, 10);
    cfg.seed = mix64(cfg.master, r); std::string rs = arg(argc, argv, "--runseed", ""); if (!rs.empty()) cfg.seed = strtoull(rs.c_str(), nullptr, 10);
    Plan p = gen_guarded(e, cfg); printf("engine name=%s\n", engine.c_str()); fputs(p.str().c_str(), stdout); return 0;
  }
  if (cmd != "run") return 2;

  int worker = atoi(arg(argc, argv, "--worker", "0").c_str()), nworkers = atoi(arg(argc, argv, "--nworkers", "1").c_str());
  double seconds = atof(arg(argc, argv, "--seconds", "10").c_str());
  long maxruns = atol(arg(argc, argv, "--maxruns", "1000000000").c_str());
  long start = atol(arg(argc, argv, "--start", "-1").c_str());
  long maxindex = atol(arg(argc, argv, "--maxindex", "4000000000000").c_str());   // run indices at or above this are not executed (quick tier: verified prefix)
  long triage = atol(arg(argc, argv, "--triage", "-1").c_str());
  int maxviol = atoi(arg(argc, argv, "--maxviol", "3").c_str());
  std::string replaydir = arg(argc, argv, "--replaydir", "/verif/replays");
  std::string hashfile = arg(argc, argv, "--hashfile", "");
  bool do_shrink = !flag(argc, argv, "--noshrink");
  int nsamples = atoi(arg(argc, argv, "--samples", "2").c_str());
  bool runlog = flag(argc, argv, "--runlog");   // one "RUN <index> <trace hash> <violation>" line per run (determinism proof)

  // open known findings: "<id> <class> k=v ..." per line (written by bin/check from known_findings.jsonl)
  struct Known { std::string id, cls; std::map<std::string, std::string> when; };
  std::vector<Known> known;
  { std::string kf = arg(argc, argv, "--known", ""); if (!kf.empty()) { std::istringstream in(slurp(kf)); std::string line; while (std::getline(in, line)) { std::istringstream ls(line); Known k; ls >> k.id >> k.cls; std::string tok; while (ls >> tok) { auto eq = tok.find('='); if (eq != std::string::npos) k.when[tok.substr(0, eq)] = tok.substr(eq + 1); } if (!k.cls.empty()) known.push_back(k); } } }
  auto match_known = [&](const Outcome &o) -> const Known * { for (auto &k : known) { if (k.cls != o.cls) continue; bool ok = true; for (auto &w : k.when) { auto it = o.facts.find(w.first); if (it == o.facts.end() || it->second != w.second) ok = false; } if (ok) return &k; } return nullptr; };
  std::set<std::string> known_reported;
  double t0 = now_s();
  std::set<uint64_t> nt_hashes; std::set<std::string> seen_classes; long runs = 0, viols = 0, flaky = 0;
  signal(SIGPROF, on_prof);

  if (triage >= 0) {  // the previous incarnation of this worker died inside run `triage`
    cfg.seed = mix64(cfg.master, (uint64_t)triage); Plan p = gen_guarded(e, cfg);
    if (!handle_violation(e, engine, p, nullptr, cfg.prop, cfg.seed, replaydir, do_shrink)) flaky++; else viols++;
  }
  long r = start >= 0 ? start : worker;
  for (; r < maxindex && runs < maxruns && now_s() - t0 < seconds && viols < maxviol && !flaky; r += nworkers) {
    cfg.seed = mix64(cfg.master, (uint64_t)r);
    printf("START %ld %llu\n", r, (unsigned long long)cfg.seed); fflush(stdout);   // before generation: whatever kills the worker from here on belongs to run r
    Plan p = gen_guarded(e, cfg);
    e->prepare(p);
    watchdog_arm(g_cpu_budget);
    Outcome o; { InExec inexec(p); o = e->exec(p); }
    watchdog_arm(0);
    runs++;
    struct Remember { const Plan &p; ~Remember() { if (!g_have_first) { g_first_plan = p; g_have_first = true; } g_prev_plan = p; g_have_prev = true; } } remember{p};
    if (runlog) printf("RUN %ld %016llx %d\n", r, (unsigned long long)o.hash, o.violation ? 1 : 0);
    if (o.nontrivial && !o.violation) nt_hashes.insert(o.hash);
    if (runs <= nsamples) { std::string s = p.str(); for (auto &c : s) if (c == '\n') c = ';'; printf("SAMPLE %s\n", s.c_str()); }
    if (o.violation) {
      std::string key = o.cls + facts_str(o);
      if (const Known *k = match_known(o)) {
        g_stats.inc("known_finding_runs." + k->id);
        if (!known_reported.count(k->id + k->cls)) { known_reported.insert(k->id + k->cls); if (!handle_violation(e, engine, p, &o, cfg.prop, cfg.seed, replaydir, do_shrink)) flaky++; }
        continue;
      }
      g_stats.inc("violations.raw");
      if (seen_classes.count(key)) { g_stats.inc("violations.duplicate_class"); continue; }
      seen_classes.insert(key);
      if (!handle_violation(e, engine, p, &o, cfg.prop, cfg.seed, replaydir, do_shrink)) flaky++; else viols++;
    }
  }
  if (const char *cd = getenv("VERIF_COVDUMP")) { extern void cov_dump(const char *); cov_dump(fmt("%s.%d", cd, (int)getpid()).c_str()); }
  if (!hashfile.empty()) { FILE *f = fopen(hashfile.c_str(), "wb"); if (f) { for (auto h : nt_hashes) fwrite(&h, 8, 1, f); fclose(f); } }
  g_stats.c["cov.edges_hit"] = cov_count(); g_stats.c["cov.edges_total"] = cov_total();
  std::string js = "{";
  js += fmt("\"runs\":%ld,\"nontrivial_distinct\":%zu,\"violations\":%ld,\"flaky\":%ld,\"wall_s\":%.2f,\"next\":%ld,\"sim_events\":%llu,\"edges_executed\":%llu,\"counters\":{", runs, nt_hashes.size(), viols, flaky, now_s() - t0, r,
            (unsigned long long)g_sim.events, (unsigned long long)g_sim.edges);
  bool first = true; for (auto &kv : g_stats.c) { if (!first) js += ","; first = false; js += "\"" + json_escape(kv.first) + "\":" + std::to_string(kv.second); }
  js += "}}";
  printf("STATS %s\n", js.c_str());
  fflush(stdout);
  __real__exit(flaky ? 2 : 0);
}
