// seams.cpp — allocator seam (link-time --wrap), event clock, coverage / preemption hook, emergency exits.
#include <cerrno>
#include <dlfcn.h>
#include "core.hpp"
#include <unistd.h>
#include <signal.h>
#include <sys/time.h>

Stats g_stats;
SimState g_sim;
int g_result_fd = 1;
volatile int g_sched_enabled = 0;

extern "C" {
void *__real_malloc(size_t);
void *__real_calloc(size_t, size_t);
void *__real_realloc(void *, size_t);
void __real_free(void *);
void __real__exit(int) __attribute__((noreturn));
int __sanitizer_symbolize_pc(void *pc, const char *fmt, char *out, size_t out_size) __attribute__((weak));
}

// ------------------------------------------------------------------ emergency
void emergency_report(const char *kind, const char *what) {
  char b[512];
  int n = snprintf(b, sizeof b, "\nEMERGENCY kind=%s op=%d opname=%s what=%s\n", kind, g_sim.cur_op, g_sim.cur_op_name.c_str(), what ? what : "-");
  if (n > 0) { ssize_t r = write(g_result_fd, b, (size_t)n); (void)r; r = write(2, b, (size_t)n); (void)r; }
  int code = EXIT_SIGNAL;
  if (!strcmp(kind, "WATCHDOG")) code = EXIT_WATCHDOG; else if (!strcmp(kind, "BUDGET")) code = EXIT_BUDGET; else if (!strcmp(kind, "LIBEXIT")) code = EXIT_LIBEXIT;
  __real__exit(code);
}

void sim_tick(const char *what) {
  g_sim.events++; g_sim.op_events++;
  if (g_sim.op_budget && g_sim.op_events > g_sim.op_budget) emergency_report("BUDGET", what);
}

// the library must never terminate the process (C02): exit/abort/_exit reached from linked objects end up here.
extern "C" void __wrap_exit(int) { emergency_report("LIBEXIT", "exit"); }
extern "C" void __wrap_abort(void) { emergency_report("LIBEXIT", "abort"); }

// ------------------------------------------------------------------ SimAlloc
namespace {
struct Ent { void *p; size_t size; uint64_t ev; int task; };
const size_t LSZ = 1u << 17;  // open addressing, power of two
Ent g_led[LSZ];
size_t g_live_blocks, g_live_bytes, g_peak, g_maxreq; uint64_t g_allocs, g_frees; int g_foreign;
uint64_t g_pctr;
__thread int t_task = 0;
void *const TOMB = (void *)1;

inline size_t hptr(void *p) { uint64_t x = (uint64_t)(uintptr_t)p; x ^= x >> 17; x *= 0x9e3779b97f4a7c15ULL; return (size_t)(x >> 40) & (LSZ - 1); }
Ent *led_find(void *p) {
  size_t i = hptr(p);
  for (size_t n = 0; n < LSZ; n++, i = (i + 1) & (LSZ - 1)) { if (g_led[i].p == p) return &g_led[i]; if (g_led[i].p == nullptr) return nullptr; }
  return nullptr;
}
void led_add(void *p, size_t size) {
  size_t i = hptr(p);
  for (size_t n = 0; n < LSZ; n++, i = (i + 1) & (LSZ - 1)) {
    if (g_led[i].p == nullptr || g_led[i].p == TOMB) { g_led[i] = Ent{p, size, g_sim.events, t_task}; g_live_blocks++; g_live_bytes += size; if (g_live_bytes > g_peak) g_peak = g_live_bytes; return; }
  }
  emergency_report("HARNESS", "ledger full");
}
void poison(void *p, size_t n) {
  unsigned char *c = (unsigned char *)p;
  switch (g_sim.poison_mode) {
    case 0: memset(c, 0x00, n); break;
    case 1: memset(c, 0xFF, n); break;
    case 2: memset(c, 0xAA, n); break;
    case 3: { uint32_t q = 0x7fc00000u; for (size_t i = 0; i < n; i++) c[i] = ((unsigned char *)&q)[i & 3]; break; }
    default: { uint64_t x = g_sim.poison_seed ^ (++g_pctr * 0x9e3779b97f4a7c15ULL); for (size_t i = 0; i < n; i += 8) { uint64_t v = splitmix64(x); memcpy(c + i, &v, n - i < 8 ? n - i : 8); } }
  }
}
}  // namespace

int simalloc_task() { return t_task; }
void simalloc_set_task(int t) { t_task = t; }

void simalloc_begin(uint64_t seed, int mode) {
  memset(g_led, 0, sizeof g_led);
  g_live_blocks = g_live_bytes = g_peak = g_maxreq = 0; g_allocs = g_frees = 0; g_foreign = 0; g_pctr = 0;
  g_sim.poison_seed = seed; g_sim.poison_mode = mode; g_sim.alloc_active = true;
}
static LedgerReport mkrep() {
  LedgerReport r; r.live_blocks = g_live_blocks; r.live_bytes = g_live_bytes; r.peak_bytes = g_peak; r.max_request = g_maxreq; r.allocs = g_allocs; r.frees = g_frees; r.foreign_free = g_foreign;
  if (g_live_blocks) for (size_t i = 0; i < LSZ; i++) if (g_led[i].p && g_led[i].p != TOMB) { r.first_leak = fmt("size=%zu ev=%llu task=%d", g_led[i].size, (unsigned long long)g_led[i].ev, g_led[i].task); break; }
  return r;
}
LedgerReport simalloc_peek() { return mkrep(); }
LedgerReport simalloc_end() { LedgerReport r = mkrep(); g_sim.alloc_active = false; return r; }
void simalloc_forget_all() { g_sim.alloc_active = false; }

extern "C" void *__wrap_malloc(size_t n) {
  void *p = __real_malloc(n);
  if (g_sim.alloc_active && p) {
    g_allocs++; if (n > g_maxreq) g_maxreq = n;
    poison(p, n); led_add(p, n); sim_tick("malloc");
    if (g_sched_enabled) sched_edge_hook();
  }
  return p;
}
extern "C" void *__wrap_calloc(size_t a, size_t b) {
  void *p = __real_calloc(a, b);
  if (g_sim.alloc_active && p) {
    g_allocs++; if (a * b > g_maxreq) g_maxreq = a * b;
    led_add(p, a * b); sim_tick("calloc");
    if (g_sched_enabled) sched_edge_hook();
  }
  return p;
}
extern "C" void *__wrap_realloc(void *o, size_t n) {
  if (!g_sim.alloc_active) return __real_realloc(o, n);
  size_t osz = 0; bool tracked = false;
  if (o) {
    Ent *e = led_find(o);
    if (e) { tracked = true; osz = e->size; if (e->task != t_task) g_foreign++; e->p = TOMB; g_live_blocks--; g_live_bytes -= osz; }
    else g_foreign++;  // realloc of a block the ledger never saw while active
  }
  void *p = __real_realloc(o, n);
  g_allocs++; if (n > g_maxreq) g_maxreq = n;
  if (p) { if ((!o || tracked) && n > osz) poison((char *)p + osz, n - osz); led_add(p, n); }
  sim_tick("realloc");
  if (g_sched_enabled) sched_edge_hook();
  return p;
}
extern "C" void __wrap_free(void *p) {
  if (g_sim.alloc_active && p) {
    Ent *e = led_find(p);
    if (e) { if (e->task != t_task) g_foreign++; g_live_blocks--; g_live_bytes -= e->size; e->p = TOMB; g_frees++; }
    else g_foreign++;
    sim_tick("free");
  }
  __real_free(p);
  if (g_sim.alloc_active && g_sched_enabled) sched_edge_hook();
}

// overwrite the stack region the next API call will use, so "uninitialised" is a seeded value. The fill is one byte value per call
// (a function of mode and seed only): a pattern that varied with the position would make what an uninitialised read sees depend on
// the caller's stack depth and on ASLR, i.e. differ between the original run, its in-process repeat and a fresh-process replay.
static unsigned char scribble_byte(int mode, uint64_t seed) { uint64_t x = seed; return mode == 0 ? 0x00 : mode == 1 ? 0xFF : mode == 2 ? 0xAA : mode == 3 ? 0x7f : (unsigned char)(splitmix64(x) >> 24); }
// errno is ambient per-thread state of the same kind: whatever an unrelated earlier call left there. The library may only interpret it
// after clearing it itself (vorbisfile.c _get_data); the seam leaves a seeded stale value before every API call.
static void errno_scribble(int mode, uint64_t seed) { static const int stale[] = {0, EIO, EINTR, ENOENT, EAGAIN, EBADF, ENOMEM, 0}; uint64_t x = seed ^ 0xE22; errno = mode == 0 ? 0 : stale[splitmix64(x) % 8]; }
__attribute__((noinline)) void stack_scribble(int mode, uint64_t seed) {
  errno_scribble(mode, seed);
  volatile unsigned char buf[192 * 1024];
  memset((void *)buf, scribble_byte(mode, seed), sizeof buf);
  __asm__ volatile("" ::"r"(buf) : "memory");
}
// cheap variant for calls repeated tens of thousands of times in one run (the decode path keeps its large arrays on the heap)
__attribute__((noinline)) void stack_scribble_small(int mode, uint64_t seed) {
  errno_scribble(mode, seed);
  volatile unsigned char buf[24 * 1024];
  memset((void *)buf, scribble_byte(mode, seed), sizeof buf);
  __asm__ volatile("" ::"r"(buf) : "memory");
}

// ------------------------------------------------------------------ coverage / preemption points
namespace {
uint32_t g_nguards = 0;
std::vector<uint8_t> *g_cov = nullptr;
size_t g_covcount = 0;
__thread uintptr_t t_last_pc = 0;
}
extern "C" void __sanitizer_cov_trace_pc_guard_init(uint32_t *start, uint32_t *stop) {
  if (start == stop || *start) return;
  for (uint32_t *x = start; x < stop; x++) *x = ++g_nguards;
}
extern "C" void __sanitizer_cov_trace_pc_guard(uint32_t *guard) {
  uint32_t id = *guard;
  g_sim.edges++;
  t_last_pc = (uintptr_t)__builtin_return_address(0);
  if (!g_cov) { g_cov = new std::vector<uint8_t>(g_nguards + 1, 0); }
  if (id < g_cov->size() && !(*g_cov)[id]) { (*g_cov)[id] = 1; g_covcount++; }
  if (g_sched_enabled) sched_edge_hook();
}
// pc-table (one {pc, flags} pair per guard, same order): lets a coverage dump name the library functions and edges no run reached
namespace { const uintptr_t *g_pcs = nullptr; size_t g_npcs = 0; }
extern "C" void __sanitizer_cov_pcs_init(const uintptr_t *beg, const uintptr_t *end) { if (!g_pcs) { g_pcs = beg; g_npcs = (size_t)(end - beg) / 2; } }
void cov_dump(const char *path) {   // "<pc hex> <entry flag> <hit>" per guard; merged and symbolised by bin/covreport.py (reach measurement, not used by any verdict)
  FILE *f = fopen(path, "w"); if (!f) return;
  Dl_info di; uintptr_t base = 0; if (dladdr((void *)&cov_dump, &di)) base = (uintptr_t)di.dli_fbase;   // position-independent executable: module-relative addresses
  for (size_t i = 0; i < g_npcs && i < g_nguards; i++) fprintf(f, "%lx %d %d\n", (unsigned long)(g_pcs[2 * i] - base), (int)(g_pcs[2 * i + 1] & 1), (g_cov && i + 1 < g_cov->size()) ? (int)(*g_cov)[i + 1] : 0);
  fclose(f);
}
size_t cov_total() { return g_nguards; }
size_t cov_count() { return g_covcount; }
void cov_snapshot(std::vector<uint8_t> &out) { if (g_cov) out = *g_cov; else out.clear(); }
const char *last_pc_function() {
  static char buf[256];
  buf[0] = 0;
  if (t_last_pc && __sanitizer_symbolize_pc) __sanitizer_symbolize_pc((void *)t_last_pc, "%f", buf, sizeof buf);
  if (!buf[0]) snprintf(buf, sizeof buf, "pc=%p", (void *)t_last_pc);
  return buf;
}

std::string json_escape(const std::string &s) {
  std::string o;
  for (unsigned char c : s) {
    if (c == '"' || c == '\\') { o += '\\'; o += (char)c; }
    else if (c < 0x20) { char b[8]; snprintf(b, sizeof b, "\\u%04x", c); o += b; }
    else o += (char)c;
  }
  return o;
}
extern "C" void __wrap__exit(int) { emergency_report("LIBEXIT", "_exit"); }
