// vfstream.cpp — plan -> physical stream + reference model; recipe pool.
#include "vfsim.hpp"

Recipe pool_recipe(uint64_t master, uint64_t idx, bool many) {
  Prng g(mix64(mix64(master, 0xB001), idx));
  Recipe r;
  static const long rates[] = {8000, 11025, 16000, 22050, 32000, 44100, 44100, 48000, 96000, 44100};
  r.rate = rates[g.below(10)];
  double c = g.unit();
  r.ch = c < 0.32 ? 1 : c < 0.72 ? 2 : c < 0.80 ? 3 : c < 0.86 ? 4 : c < 0.90 ? 5 : c < 0.95 ? 6 : 8;
  if (many && g.chance(0.08)) { r.ch = 9 + (int)g.below(g.chance(0.3) ? 247 : 24); if (g.chance(0.2)) r.ch = 255; }   // 255 is the format's maximum
  r.q = -0.1 + g.unit() * 1.1; if (g.chance(0.15)) r.q = g.chance(0.5) ? -0.1 : 1.0;
  r.mode = 0;
  if (g.chance(0.2)) { r.mode = 1 + (int)g.below(3); r.nominal = (long)(r.rate * 1.4 * std::min(r.ch, 2) * (0.6 + g.unit())); }
  static const int64_t lens[] = {0, 1, 2, 63, 64, 65, 127, 128, 129, 255, 256, 257, 511, 512, 513, 1023, 1024, 1025, 2047, 2048, 2049, 3071, 4096, 4097, 6143};
  double l = g.unit();
  if (l < 0.22) r.n = lens[g.below(sizeof lens / sizeof lens[0])];
  else if (l < 0.55) r.n = g.range(300, 9000);
  else if (l < 0.9) r.n = g.range(9000, 40000);
  else r.n = g.range(40000, 120000);
  if (r.ch > 2) r.n = std::min<int64_t>(r.n, 240000 / r.ch);
  if (r.ch > 8) r.n = std::min<int64_t>(r.n, 5000);
  r.sig = (int)g.below(6); if (g.chance(0.1)) r.sig = 4;
  r.seed = g.next() % 100000; r.ncomm = (int)g.below(4);
  if (g.chance(0.12) && r.n > 6000) r.cut = 1 + (int)g.below(30);
  if (!r.cut && r.n > 4000 && g.chance(0.10)) { r.trim = 1 + (int)g.below(300); r.tk = 2; }   // two packets per page: the decoder can only trim a short first page correctly while nothing of it has been returned yet (DESIGN 13.3)
  if (g.chance(0.08)) r.modes3 = 1 + (int)g.below(2);
  if (r.ch >= 2 && r.ch <= 8 && g.chance(0.15)) r.mute = 1 + (int)g.below((1u << r.ch) - 2);
  return r;
}

void build_stream(const Plan &plan, StreamRef &sr) {
  sr = StreamRef(); std::vector<int> lr_pol, lr_k;
  for (auto *lr : plan.all("link")) {
    Recipe r = Recipe::from(*lr);
    auto l = get_link(r);
    if (!l->ok) continue;
    MuxPolicy mp; mp.policy = (int)lr->i("pol", 0); mp.k = (int)lr->i("k", 4); lr_pol.push_back(mp.policy); lr_k.push_back(mp.k); mp.serial = lr->i("serial", 1000 + (long)sr.ps.links.size());
    std::vector<Pkt> foreign;
    if (lr->i("foreign", 0)) {
      Prng fr(mix64(r.seed, 0xF0)); int np = 2 + (int)fr.below(6);
      for (int i = 0; i < np; i++) { Pkt p; size_t n = 8 + fr.below(300); p.data.resize(n); for (auto &b : p.data) b = (uint8_t)fr.next(); memcpy(p.data.data(), i == 0 ? "fishead" : "fisbone", 7); p.granule = i * 100; foreign.push_back(p); }
    }
    mp.foreign_mode = (int)lr->i("foreign", 0) > 1 ? (int)lr->i("foreign", 0) : 1; mp.foreign_bos_first = (int)lr->i("fbosfirst", 0);
    mux_link(sr.ps, l, mp, foreign.empty() ? nullptr : &foreign, lr->i("fserial", 77000 + (long)sr.ps.links.size()));
    if (r.bs64) { sr.has_bs64 = true; sr.bs64_rewritten = true; }
    if (l->bs0 <= 64) sr.has_bs64 = true;
  }
  sr.nlinks = (int)sr.ps.links.size();
  int64_t acc = 0;
  for (int i = 0; i < sr.nlinks; i++) { sr.start.push_back(acc); acc += sr.ps.links[i]->len; }
  sr.start.push_back(acc); sr.total = acc;
  for (int i = 0; i < sr.nlinks; i++) {
    sr.boundaries.push_back(sr.start[i]);
    Link &l = *sr.ps.links[i]; int64_t go = 0;
    if ((l.r.cut || l.r.bs64) && !l.audio.empty()) go = std::max<int64_t>(0, l.audio.back().granule - l.len);
    sr.goff.push_back(go);
    if (l.r.trim && (lr_pol[i] != 1 || lr_k[i] != std::max(2, l.r.tk))) sr.ambiguous_cut = true;   // the page layout must put exactly the granule-bearing packets last on their pages
    if (l.r.bs64) { bool ok2 = false; for (auto &p : sr.ps.pages) if (p.link == i && !p.header) { ok2 = p.completed >= 2; break; } if (!ok2) sr.ambiguous_cut = true; }
    if (l.r.cut || l.r.bs64) { int ap = 0; for (auto &p : sr.ps.pages) if (p.link == i && !p.header && p.completed > 0) ap++; if (ap < 2) sr.ambiguous_cut = true; }   // pages on which a packet ends: a page holding only the front part of a large packet carries no position
  }
  for (auto &p : sr.ps.pages) if (p.link >= 0 && !p.header && p.granule >= 0) sr.boundaries.push_back(sr.start[p.link] + std::max<int64_t>(0, std::min<int64_t>(p.granule - sr.goff[p.link], sr.ps.links[p.link]->len)));
  std::sort(sr.boundaries.begin(), sr.boundaries.end());
  sr.bytes = sr.ps.bytes;
  for (size_t i = 0; i < sr.ps.serials.size(); i++) for (size_t j = 0; j < i; j++) if (sr.ps.serials[i] == sr.ps.serials[j]) { if (!sr.damaged) g_stats.inc("fault.page.serial_reused_by_later_link"); sr.damaged = true; }
  if (const Rec *m = plan.first("meta")) if ((m->s("mode") == "hole" || m->i("hole", 0)) && plan.count("pfault") == 1 && !sr.ambiguous_cut && !sr.bs64_rewritten) {
    // the damaged page must be an audio page with a granule position, with at least one such page of the same link before it and three after it
    const Rec *f = plan.first("pfault"); size_t pi = sr.ps.pages.empty() ? 0 : (size_t)(f->u("page", 0) % sr.ps.pages.size());
    if (!sr.ps.pages.empty() && sr.ps.pages[pi].link >= 0 && !sr.ps.pages[pi].header && sr.ps.pages[pi].granule >= 0) {
      int L = sr.ps.pages[pi].link; std::vector<size_t> gp; for (size_t q = 0; q < sr.ps.pages.size(); q++) if (sr.ps.pages[q].link == L && !sr.ps.pages[q].header && sr.ps.pages[q].granule >= 0) gp.push_back(q);
      size_t at = (size_t)(std::find(gp.begin(), gp.end(), pi) - gp.begin());
      if (at >= 1 && at + 3 < gp.size()) {
        auto pos = [&](size_t q) { return sr.start[L] + std::max<int64_t>(0, std::min<int64_t>(sr.ps.pages[q].granule - sr.goff[L], sr.ps.links[L]->len)); };
        sr.hole = true; sr.hole_at = pos(gp[at - 1]); sr.hole_lo = std::max<int64_t>(sr.start[L], pos(gp[at - 1]) - sr.ps.links[L]->bs1); sr.hole_hi = pos(gp[at + 3]);
        sr.hole_w = (sr.hole_hi - sr.hole_lo) + (pos(gp[at]) - pos(gp[at - 1])) + sr.ps.links[L]->bs1;   // samples after which the position has been re-anchored for good, also when a repeated page made it run ahead
      }
    }
  }
  if (plan.count("pfault")) { sr.damaged = true; apply_pfaults(plan, sr); }
}

// debugging aid: write the physical stream a plan describes to a file
void vfsim_dump(const Plan &plan, const char *path) {
  StreamRef sr; build_stream(plan, sr);
  FILE *f = fopen(path, "wb"); if (!f) return; fwrite(sr.bytes.data(), 1, sr.bytes.size(), f); fclose(f);
  fprintf(stderr, "wrote %zu bytes, %d links, total %lld samples\n", sr.bytes.size(), sr.nlinks, (long long)sr.total);
}
