// vfdamage.cpp — PhysFaults: page-level storage/transport damage applied to an intact physical stream.
#include "vfsim.hpp"

// pfault kind=<k> page=<i> a=<x> b=<y>
//   drop      remove page i
//   dup       duplicate page i (inserted right after)
//   swap      swap page i with page i+1
//   move      move page i to position a
//   garbage   insert a bytes of junk before page i (seed b)
//   flip      flip bit a of page i, CRC left stale (libogg rejects the page)
//   sflip     flip bit a of page i body/header and re-seal the CRC (damage reaches vorbisfile / codec)
//   gran      set granule position of page i to a (re-sealed)
//   serial    set serial of page i to a (re-sealed)
//   pageno    set page sequence number to a (re-sealed)
//   flags     set header-type flags of page i to a (re-sealed)
//   tear      keep only the first a bytes of page i
//   trunc     truncate the file at offset (page i start + a)
//   noeos     clear the EOS flag on page i (re-sealed)
void apply_pfaults(const Plan &plan, StreamRef &sr) {
  // work on a list of page byte-strings so that indices stay meaningful while faults are applied in order
  std::vector<std::vector<uint8_t>> pg;
  for (auto &p : sr.ps.pages) pg.emplace_back(sr.ps.bytes.begin() + p.off, sr.ps.bytes.begin() + p.off + p.len);
  long trunc_at = -1;
  for (auto *f : plan.all("pfault")) {
    if (pg.empty()) break;
    std::string k = f->s("kind"); size_t i = (size_t)(f->u("page", 0) % pg.size()); int64_t a = f->i("a", 0); uint64_t b = f->u("b", 0);
    auto is_page = [&](size_t j) { return pg[j].size() >= 27 && !memcmp(pg[j].data(), "OggS", 4) && pg[j].size() >= (size_t)27 + pg[j][26]; };
    auto seal = [&](size_t j) { if (is_page(j)) { size_t hl = 27 + pg[j][26]; size_t body = 0; for (int s = 0; s < pg[j][26]; s++) body += pg[j][27 + s]; if (pg[j].size() == hl + body) reseal_page(pg[j].data(), pg[j].size()); } };
    if (k == "drop") { pg.erase(pg.begin() + i); g_stats.inc("fault.page.drop"); }
    else if (k == "dup") { pg.insert(pg.begin() + i + 1, pg[i]); g_stats.inc("fault.page.dup"); }
    else if (k == "swap") { if (i + 1 < pg.size()) { std::swap(pg[i], pg[i + 1]); g_stats.inc("fault.page.swap"); } }
    else if (k == "move") { auto x = pg[i]; pg.erase(pg.begin() + i); size_t to = (size_t)((uint64_t)a % (pg.size() + 1)); pg.insert(pg.begin() + to, x); g_stats.inc("fault.page.move"); }
    else if (k == "garbage") { Prng r(b + 1); std::vector<uint8_t> junk((size_t)std::max<int64_t>(1, a)); for (auto &c : junk) c = (uint8_t)r.next(); if (b & 1) for (size_t q = 0; q + 4 < junk.size(); q += 97) memcpy(&junk[q], "OggS", 4); pg.insert(pg.begin() + i, junk); g_stats.inc("fault.page.garbage"); }
    else if (k == "flip") { if (pg[i].empty()) continue; size_t bit = (size_t)((uint64_t)a % (pg[i].size() * 8)); pg[i][bit / 8] ^= (uint8_t)(1u << (bit % 8)); g_stats.inc("fault.page.flip_stale_crc"); }
    else if (k == "sflip") { size_t lo = 27 * 8, n = pg[i].size() * 8; if (n > lo) { size_t bit = lo + (size_t)((uint64_t)a % (n - lo)); if (is_page(i) && bit / 8 < (size_t)27 + pg[i][26]) bit = ((size_t)27 + pg[i][26]) * 8 + bit % 8; if (bit / 8 < pg[i].size()) { pg[i][bit / 8] ^= (uint8_t)(1u << (bit % 8)); seal(i); g_stats.inc("fault.page.flip_sealed"); } } }
    else if (k == "gran") { if (is_page(i)) { uint64_t g = (uint64_t)a; for (int q = 0; q < 8; q++) pg[i][6 + q] = (uint8_t)(g >> (8 * q)); seal(i); g_stats.inc("fault.page.granule_lie"); } }
    else if (k == "serial") { if (is_page(i)) { uint32_t s = (uint32_t)a; for (int q = 0; q < 4; q++) pg[i][14 + q] = (uint8_t)(s >> (8 * q)); seal(i); g_stats.inc("fault.page.serial_lie"); } }
    else if (k == "pageno") { if (is_page(i)) { uint32_t s = (uint32_t)a; for (int q = 0; q < 4; q++) pg[i][18 + q] = (uint8_t)(s >> (8 * q)); seal(i); g_stats.inc("fault.page.pageno_lie"); } }
    else if (k == "flags") { if (is_page(i)) { pg[i][5] = (uint8_t)(a & 7); seal(i); g_stats.inc("fault.page.flags_lie"); } }
    else if (k == "noeos") { if (is_page(i)) { pg[i][5] &= (uint8_t)~4; seal(i); g_stats.inc("fault.page.no_eos"); } }
    else if (k == "tear") { if (!pg[i].empty()) { size_t keep = (size_t)((uint64_t)a % pg[i].size()); pg[i].resize(keep); g_stats.inc("fault.page.tear"); } }
    else if (k == "trunc") { size_t off = 0; for (size_t j = 0; j < i; j++) off += pg[j].size(); trunc_at = (long)(off + (uint64_t)a % (pg[i].size() + 1)); g_stats.inc("fault.page.truncate"); }
  }
  sr.bytes.clear();
  for (auto &p : pg) sr.bytes.insert(sr.bytes.end(), p.begin(), p.end());
  if (trunc_at >= 0 && (size_t)trunc_at < sr.bytes.size()) sr.bytes.resize((size_t)trunc_at);
}
